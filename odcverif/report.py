"""Instances, evidence files, known findings, exit protocol."""
from __future__ import annotations

import json
import os
import sys
import time
from dataclasses import dataclass, field
from pathlib import Path
from typing import Any, Dict, List, Optional

VERIF = Path(__file__).resolve().parent.parent
EVIDENCE_DIR = Path(os.environ.get("ODCVERIF_EVIDENCE_DIR") or (VERIF / "evidence"))
REPLAY_DIR = EVIDENCE_DIR / "replay"
KNOWN_FILE = VERIF / "known_findings.json"

OK, BAD, UNDET, INFO = "ok", "bad", "undetermined", "info"


@dataclass
class Instance:
    rule: str  # e.g. "R-CRSGUARD"
    construct: str  # e.g. "geom:Geometry.split#guard"
    status: str  # ok | bad | undetermined | info
    why: str
    where: str = ""  # file:line (diagnostic only, never a key)
    path: List[str] = field(default_factory=list)  # offending path for path rules
    detail: Dict[str, Any] = field(default_factory=dict)
    nontrivial: bool = True  # did the rule really check something on this instance

    @property
    def key(self) -> str:
        return f"{self.rule}|{self.construct}"

    def as_dict(self) -> Dict[str, Any]:
        d = {
            "rule": self.rule,
            "construct": self.construct,
            "status": self.status,
            "why": self.why,
            "where": self.where,
        }
        if self.path:
            d["path"] = self.path
        if self.detail:
            d["detail"] = self.detail
        return d


def load_known() -> Dict[str, Any]:
    if not KNOWN_FILE.exists():
        return {"known": [], "fixed": []}
    return json.loads(KNOWN_FILE.read_text())


def known_for(prop: str) -> List[Dict[str, Any]]:
    return [k for k in load_known().get("known", []) if prop in k.get("properties", [k.get("property")])]


def match_known(prop: str, inst: Instance) -> Optional[Dict[str, Any]]:
    for k in known_for(prop):
        if k.get("rule") == inst.rule and k.get("construct") == inst.construct:
            return k
    # the same construct after its function moved to another module (re-exported under the old name): the id differs only in
    # the module part before the first ':'
    tail = inst.construct.split(":", 1)[-1]
    for k in known_for(prop):
        if k.get("rule") == inst.rule and str(k.get("construct", "")).split(":", 1)[-1] == tail:
            return k
    return None


class Run:
    """One check run for one property."""

    def __init__(self, prop: str, tier: str, seed: int, title: str = ""):
        self.prop = prop
        self.tier = tier
        self.seed = seed
        self.title = title
        self.t0 = time.time()
        self.instances: List[Instance] = []
        self.rules_applied: List[str] = []
        self.floors: Dict[str, int] = {}
        self.notes: List[str] = []
        self.extra_cov: Dict[str, Any] = {}
        self.errors: List[str] = []
        self.assumptions: List[str] = []

    def add(self, insts: List[Instance], rule_desc: Optional[str] = None) -> List[Instance]:
        self.instances.extend(insts)
        if rule_desc and rule_desc not in self.rules_applied:
            self.rules_applied.append(rule_desc)
        return insts

    def floor(self, rule_prefix: str, n: int) -> None:
        # n is the count confirmed by hand on the reference tree; the alarm threshold is a third of it,
        # so that ordinary refactors (a helper inlined, locals renamed) never trip it while a rule
        # that stopped matching its anchors does
        self.floors[rule_prefix] = max(1, n // 3)

    def error(self, msg: str) -> None:
        self.errors.append(msg)

    # -- finish ------------------------------------------------------------------------------
    def finish(self) -> int:
        EVIDENCE_DIR.mkdir(exist_ok=True, parents=True)
        REPLAY_DIR.mkdir(exist_ok=True, parents=True)
        # dedupe by key (a construct reported through two scopes is one instance)
        uniq: Dict[str, Instance] = {}
        for i in self.instances:
            if i.key in uniq:
                # worst status wins
                order = {BAD: 3, UNDET: 2, OK: 1, INFO: 0}
                if order[i.status] > order[uniq[i.key].status]:
                    uniq[i.key] = i
            else:
                uniq[i.key] = i
        insts = list(uniq.values())

        # floors: a rule that no longer matches what was confirmed by hand is a broken analysis
        n_undet_all = sum(1 for i in insts if i.status == UNDET)
        for prefix, n in self.floors.items():
            have = sum(1 for i in insts if i.key.startswith(prefix) and i.status in (OK, BAD))
            if have < n and n_undet_all:
                # the loss is not silent: clauses / rules of this run said that their subject moved (UNDECIDED lines below);
                # the floor guards against a rule that quietly matches nothing
                self.notes.append(f"instance floor for {prefix} not met ({have} < {n}) while {n_undet_all} clause(s) report a moved / unread subject")
                continue
            if have < n:
                self.error(
                    f"instance floor missed for {prefix}: {have} < {n} "
                    f"(anchors moved or idiom no longer recognised; the rule would pass vacuously)"
                )
        # a clause whose subject construct is not found in the shape it knows (function split, helper extracted, closure turned
        # into a method ...) decides nothing on this tree: it is listed as UNDECIDED (stdout + evidence) and the other clauses
        # stand.  The analysis as a whole is broken (exit 2) when a rule family misses its floor (above), when an instance is
        # marked fatal, or when more clauses lost their subject than a local refactor explains.
        undet = [i for i in insts if i.status == UNDET]
        undecided = []
        for i in undet:
            if i.detail.get("fatal"):
                self.error(f"undetermined instance {i.key}: {i.why} [{i.where}]")
            else:
                undecided.append(i)
        n_checked = sum(1 for i in insts if i.status in (OK, BAD))
        if len(undecided) > max(8, n_checked // 10):
            self.error(f"{len(undecided)} clauses lost their subject construct (more than a local refactor explains): " + "; ".join(i.key for i in undecided[:6]))

        bad = [i for i in insts if i.status == BAD]
        known_hits = []
        violations = []
        for i in bad:
            k = match_known(self.prop, i)
            if k is not None:
                known_hits.append((i, k))
            else:
                violations.append(i)

        # old replay files of this property
        for f in REPLAY_DIR.glob(f"{self.prop}-*.json"):
            try:
                f.unlink()
            except OSError:
                pass

        lines: List[str] = []
        for i, k in known_hits:
            lines.append(f"KNOWN-FINDING: property={self.prop} {i.construct} [{i.rule}] {k.get('what', i.why)}")
        for n, i in enumerate(violations):
            rp = REPLAY_DIR / f"{self.prop}-{n}.json"
            rp.write_text(json.dumps({"property": self.prop, **i.as_dict()}, indent=1))
            lines.append(f"VIOLATION property={self.prop} replay={rp}")
            lines.append(f"  rule={i.rule} construct={i.construct} at {i.where}")
            lines.append(f"  {i.why}")
            for p in i.path[:12]:
                lines.append(f"    path: {p}")
        for i in undecided:
            lines.append(f"UNDECIDED property={self.prop} {i.key}: {i.why} [{i.where}]")
        for e in self.errors:
            lines.append(f"ANALYSIS-ERROR property={self.prop} {e}")

        checked = [i for i in insts if i.status in (OK, BAD)]
        nontrivial = {i.key for i in checked if i.nontrivial}
        per_rule: Dict[str, Dict[str, int]] = {}
        for i in insts:
            d = per_rule.setdefault(i.rule, {OK: 0, BAD: 0, UNDET: 0, INFO: 0})
            d[i.status] += 1
        samples = [i.as_dict() for i in (violations + [h[0] for h in known_hits])[:6]]
        # a spread of accepted instances across rules
        seen_rules = set()
        for i in checked:
            if i.status == OK and i.rule not in seen_rules:
                seen_rules.add(i.rule)
                samples.append(i.as_dict())
        for i in checked:
            if len(samples) >= 14:
                break
            if i.status == OK and i.as_dict() not in samples:
                samples.append(i.as_dict())

        cov = {
            "explanation": (
                f"static analysis (ast) of {os.environ.get('ODCVERIF_REPO', '/repo')}/odc/geo; rules: "
                + "; ".join(self.rules_applied)
                + ". Decides the listed structural clauses (necessary conditions), not the behaviour."
            ),
            "obligations": len(checked),
            "discharged": sum(1 for i in checked if i.status == OK),
            "evaluations": max(1, len(checked)),
            "distinct_nontrivial": len(nontrivial),
            "rule": "one evaluation = one rule instance (rule x program construct); non-trivial = the rule "
            "performed at least one real check on that construct; distinct by rule|construct-id",
            "samples": samples or [{"note": "no instances"}],
            "per_rule": per_rule,
            "known_findings": [h[0].key for h in known_hits],
            "undecided": [{"instance": i.key, "why": i.why, "where": i.where} for i in undecided],
            "info": [i.as_dict() for i in insts if i.status == INFO][:40],
            "notes": self.notes,
            "exhaustive": False,
            **self.extra_cov,
        }
        ev = {
            "property_id": self.prop,
            "tier": self.tier,
            "seed": self.seed,
            "level": "other",
            "coverage": cov,
            "assumptions": self.assumptions
            or [
                "CPython ast parses what the interpreter runs; no exec/metaclass/monkey-patch rewrites analysed functions",
                "annotations tell the truth about CRS-tagged parameter types",
                "semantics of shapely, pyproj, numpy, GDAL/rasterio, dask, threading.Lock, distributed.Lock/Variable",
                "the role / exception tables frozen in /verif/odcverif (printed in coverage.notes)",
                "static clauses are necessary, not sufficient: a pass says no structural cause was found",
            ],
            "wall_s": round(time.time() - self.t0, 3),
            "violations": len(violations),
        }
        (EVIDENCE_DIR / f"{self.prop}.json").write_text(json.dumps(ev, indent=1, default=str))

        for ln in lines:
            print(ln)
        print(
            f"[{self.prop}] tier={self.tier} instances={len(checked)} ok={cov['discharged']} "
            f"violations={len(violations)} known={len(known_hits)} undecided={len(undecided)} errors={len(self.errors)} "
            f"wall={ev['wall_s']}s"
        )
        sys.stdout.flush()
        # a reported violation stands whatever else could not be analysed (exit 1 with the VIOLATION lines);
        # analysis errors alone are exit 2 - never a pass
        if violations:
            return 1
        if self.errors:
            return 2
        return 0
