"""Parse odc/geo and build the indexes the rules need.

Program
  .modules      name -> ModuleInfo          ("geom", "cog._mpu", ...)
  .functions    qualname -> FuncInfo        ("geom:Geometry.split", "geom:densify/short_enough")
  .classes      "mod:Class" -> ClassInfo    (also reachable through .class_by_name)

Every ast node gets ``_parent`` and ``_mod`` attributes; every FunctionDef/Lambda gets ``_fi``.
Nothing here executes repository code.
"""
from __future__ import annotations

import ast
import copy
import hashlib
import os
from pathlib import Path
from typing import Dict, Iterable, Iterator, List, Optional, Sequence, Set, Tuple, Union

PKG_REL = "odc/geo"
PKG_DOTTED = "odc.geo"


def repo_root() -> Path:
    return Path(os.environ.get("ODCVERIF_REPO", "/repo"))


class AnalysisError(Exception):
    """The analysis cannot stand behind a verdict (vanished anchor, unparsable input ...)."""


FuncNode = Union[ast.FunctionDef, ast.AsyncFunctionDef, ast.Lambda]


class ModuleInfo:
    def __init__(self, name: str, path: Path, source: str, tree: ast.Module):
        self.name = name
        self.path = path
        self.source = source
        self.tree = tree
        # local name -> ("mod", modname) | ("sym", modname, symbol) | ("ext", dotted)
        self.imports: Dict[str, Tuple[str, ...]] = {}
        self.functions: Dict[str, "FuncInfo"] = {}  # module-level functions by name
        self.classes: Dict[str, "ClassInfo"] = {}
        self.assigns: Dict[str, List[ast.AST]] = {}  # module-level NAME = value

    @property
    def relpath(self) -> str:
        return f"{PKG_REL}/{self.name.replace('.', '/')}.py"

    def __repr__(self) -> str:
        return f"<module {self.name}>"


class ClassInfo:
    def __init__(self, mod: ModuleInfo, node: ast.ClassDef):
        self.mod = mod
        self.node = node
        self.name = node.name
        self.methods: Dict[str, "FuncInfo"] = {}
        self.base_exprs = list(node.bases)
        self.bases: List["ClassInfo"] = []  # resolved package bases
        self.ext_bases: List[str] = []  # dotted / bare names of external bases
        self.class_assigns: Dict[str, ast.AST] = {}  # NAME = value in class body

    @property
    def qual(self) -> str:
        return f"{self.mod.name}:{self.name}"

    def mro(self) -> List["ClassInfo"]:
        out: List[ClassInfo] = []
        seen: Set[int] = set()

        def go(c: "ClassInfo"):
            if id(c) in seen:
                return
            seen.add(id(c))
            out.append(c)
            for b in c.bases:
                go(b)

        go(self)
        return out

    def all_ext_bases(self) -> Set[str]:
        r: Set[str] = set()
        for c in self.mro():
            r.update(c.ext_bases)
        return r

    def find_method(self, name: str) -> Optional["FuncInfo"]:
        for c in self.mro():
            if name in c.methods:
                return c.methods[name]
            # alias in class body:  expand = crop
            if name in c.class_assigns:
                v = c.class_assigns[name]
                if isinstance(v, ast.Name) and v.id in c.methods:
                    return c.methods[v.id]
        return None

    def is_subclass_of(self, name: str) -> bool:
        return any(c.name == name for c in self.mro())

    def slots(self) -> Optional[List[str]]:
        v = self.class_assigns.get("__slots__")
        if v is None:
            return None
        if isinstance(v, (ast.Tuple, ast.List)):
            return [e.value for e in v.elts if isinstance(e, ast.Constant)]
        if isinstance(v, ast.Constant) and isinstance(v.value, str):
            return [v.value]
        return None

    def __repr__(self) -> str:
        return f"<class {self.qual}>"


class FuncInfo:
    def __init__(
        self,
        mod: ModuleInfo,
        node: FuncNode,
        cls: Optional[ClassInfo],
        parent: Optional["FuncInfo"],
        qual: str,
    ):
        self.mod = mod
        self.node = node
        self.cls = cls
        self.parent = parent
        self.qual = qual
        self.name = getattr(node, "name", "<lambda>")
        self.nested: Dict[str, "FuncInfo"] = {}

    # -- parameters -------------------------------------------------------------------------
    @property
    def args(self) -> ast.arguments:
        return self.node.args

    def params(self) -> List[ast.arg]:
        a = self.args
        out = list(a.posonlyargs) + list(a.args)
        if a.vararg:
            out.append(a.vararg)
        out += list(a.kwonlyargs)
        if a.kwarg:
            out.append(a.kwarg)
        return out

    def positional_params(self) -> List[ast.arg]:
        a = self.args
        return list(a.posonlyargs) + list(a.args)

    def param_names(self) -> List[str]:
        return [p.arg for p in self.params()]

    @property
    def decorators(self) -> List[ast.expr]:
        return list(getattr(self.node, "decorator_list", []))

    def decorator_names(self) -> List[str]:
        out = []
        for d in self.decorators:
            if isinstance(d, ast.Call):
                d = d.func
            out.append(dotted(d) or "?")
        return out

    @property
    def is_static(self) -> bool:
        return "staticmethod" in self.decorator_names()

    @property
    def is_property(self) -> bool:
        return any(n == "property" or n.endswith(".setter") for n in self.decorator_names())

    @property
    def is_method(self) -> bool:
        return self.cls is not None and self.parent is None

    @property
    def self_name(self) -> Optional[str]:
        if self.is_method and not self.is_static:
            pp = self.positional_params()
            if pp:
                return pp[0].arg
        # nested function inside a method: inherit
        if self.parent is not None:
            return self.parent.self_name
        return None

    @property
    def owner_class(self) -> Optional[ClassInfo]:
        if self.cls is not None:
            return self.cls
        if self.parent is not None:
            return self.parent.owner_class
        return None

    @property
    def body(self) -> List[ast.stmt]:
        if isinstance(self.node, ast.Lambda):
            r = ast.Return(value=self.node.body)
            ast.copy_location(r, self.node.body)
            r._parent = self.node  # type: ignore[attr-defined]
            return [r]
        return self.node.body

    @property
    def is_stub(self) -> bool:
        """overload / Protocol member / body is only ``...`` / docstring / raise NotImplementedError."""
        if isinstance(self.node, ast.Lambda):
            return False
        if "overload" in self.decorator_names():
            return True
        body = [
            s
            for s in self.node.body
            if not (isinstance(s, ast.Expr) and isinstance(s.value, ast.Constant))
        ]
        if not body:
            return True
        if len(body) == 1 and isinstance(body[0], ast.Pass):
            return True
        if len(body) == 1 and isinstance(body[0], ast.Raise):
            e = body[0].exc
            if isinstance(e, ast.Call):
                e = e.func
            if isinstance(e, ast.Name) and e.id == "NotImplementedError":
                return True
        return False

    @property
    def is_generator(self) -> bool:
        for n in walk_own(self.node):
            if isinstance(n, (ast.Yield, ast.YieldFrom)):
                return True
        return False

    @property
    def file(self) -> str:
        return self.mod.relpath

    @property
    def line(self) -> int:
        return self.node.lineno

    def where(self, node: Optional[ast.AST] = None) -> str:
        ln = getattr(node, "lineno", None) if node is not None else None
        return f"{self.file}:{ln if ln is not None else self.line}"

    def __repr__(self) -> str:
        return f"<func {self.qual}>"


# ---------------------------------------------------------------------------------------------
# small ast helpers
# ---------------------------------------------------------------------------------------------


def dotted(node: ast.AST) -> Optional[str]:
    """``a.b.c`` -> "a.b.c" for Name/Attribute chains, else None."""
    parts: List[str] = []
    while isinstance(node, ast.Attribute):
        parts.append(node.attr)
        node = node.value
    if isinstance(node, ast.Name):
        parts.append(node.id)
        return ".".join(reversed(parts))
    return None


def walk_own(fn: ast.AST) -> Iterator[ast.AST]:
    """Walk the body of a function without descending into nested defs/lambdas/classes."""
    todo: List[ast.AST] = []
    if isinstance(fn, ast.Lambda):
        todo.append(fn.body)
    elif isinstance(fn, (ast.FunctionDef, ast.AsyncFunctionDef)):
        todo.extend(reversed(fn.body))
    else:
        todo.append(fn)
    # pre-order, source order
    while todo:
        n = todo.pop()
        yield n
        if isinstance(n, (ast.FunctionDef, ast.AsyncFunctionDef, ast.Lambda, ast.ClassDef)):
            # the def statement itself is visible, its body belongs to the nested scope
            continue
        todo.extend(reversed(list(ast.iter_child_nodes(n))))


def walk_all(fn: ast.AST) -> Iterator[ast.AST]:
    yield from ast.walk(fn)


def _attr_chain_base(e: ast.AST) -> Optional[str]:
    """`a.b.c` -> 'a' when the expression is a pure attribute chain over a name (at least one attribute)."""
    if not isinstance(e, ast.Attribute):
        return None
    while isinstance(e, ast.Attribute):
        e = e.value
    return e.id if isinstance(e, ast.Name) else None


def _copy_chain(e: ast.AST) -> ast.AST:
    """Fresh Load-context copy of a pure attribute chain (not deepcopy: nodes may carry parent links)."""
    if isinstance(e, ast.Attribute):
        return ast.Attribute(value=_copy_chain(e.value), attr=e.attr, ctx=ast.Load())
    assert isinstance(e, ast.Name)
    return ast.Name(id=e.id, ctx=ast.Load())


def inline_attribute_copies(tree: ast.Module) -> int:
    """Canonicalisation applied to every parsed module before indexing: a function-local name that is bound
    exactly once, by a plain assignment, to a pure attribute chain of a name that is itself never re-bound in
    the function (`_shape = self._shape`, `extent = tile_geobox.extent`) is replaced *at its uses* by a copy of
    that chain (the assignment stays). A value reaching its use through such a local and the value used in
    place are the same program as far as every rule here is concerned; without this pass rules that inspect a
    call's argument expression would depend on whether the author introduced a temporary.
    Conditions (all syntactic, per function, nested functions excluded from the binding count but not from
    replacement): one binding of the local; it is not a parameter, global or nonlocal; no store to any
    attribute of the chain's base anywhere in the function; every use is a load at a later line."""
    n_inlined = 0
    for fn in [n for n in ast.walk(tree) if isinstance(n, (ast.FunctionDef, ast.AsyncFunctionDef))]:
        params = {a.arg for a in fn.args.posonlyargs + fn.args.args + fn.args.kwonlyargs} | ({fn.args.vararg.arg} if fn.args.vararg else set()) | ({fn.args.kwarg.arg} if fn.args.kwarg else set())
        bindings: Dict[str, List[ast.AST]] = {}
        declared: Set[str] = set()
        attr_stores: Set[str] = set()
        for n in ast.walk(fn):
            if isinstance(n, (ast.Global, ast.Nonlocal)):
                declared |= set(n.names)
            if isinstance(n, ast.Name) and isinstance(n.ctx, (ast.Store, ast.Del)):
                bindings.setdefault(n.id, []).append(n)
            if isinstance(n, ast.Attribute) and isinstance(n.ctx, (ast.Store, ast.Del)):
                d = dotted(n)
                if d:
                    attr_stores.add(d)
            if isinstance(n, (ast.FunctionDef, ast.AsyncFunctionDef)) and n is not fn:
                bindings.setdefault(n.name, []).append(n)
            if isinstance(n, (ast.Import, ast.ImportFrom)):
                for a in n.names:
                    bindings.setdefault((a.asname or a.name).split(".")[0], []).append(n)
        cands: Dict[str, Tuple[ast.Assign, ast.AST]] = {}
        adjacent: Dict[str, Tuple[ast.Assign, ast.AST]] = {}
        for n in ast.walk(fn):
            if isinstance(n, ast.Assign) and len(n.targets) == 1 and isinstance(n.targets[0], ast.Name):
                nm = n.targets[0].id
                base = _attr_chain_base(n.value)
                if base is None or nm in params or nm in declared or len(bindings.get(nm, [])) != 1:
                    continue
                chain = dotted(n.value) or ""
                if base in declared or nm == base:
                    continue
                # a store to the same attribute path (or a prefix / extension of it) anywhere in the function blocks the
                # general replacement; the adjacent single-use form below is still safe
                if any(chain == st or chain.startswith(st + ".") or st.startswith(chain + ".") for st in attr_stores):
                    nb0 = len(bindings.get(base, []))
                    if (base in params and nb0 == 0) or (base not in params and nb0 <= 1):
                        adjacent[nm] = (n, n.value)
                    continue
                nb = len(bindings.get(base, []))
                if not ((base in params and nb == 0) or (base not in params and nb <= 1)):
                    continue
                cands[nm] = (n, n.value)
        # `t = obj.attr` immediately followed by the one statement that uses `t` once, with nothing evaluated before
        # the use that could change obj.attr (no call other than the calls the use is an argument of): the value
        # used is obj.attr as of that statement - replace the use (this is what an "extract local" refactor produces)
        if adjacent:
            for blk_owner in ast.walk(fn):
                for fld in ("body", "orelse", "finalbody", "handlers"):
                    blk = getattr(blk_owner, fld, None)
                    if not isinstance(blk, list):
                        continue
                    for i, st in enumerate(blk[:-1]):
                        if not (isinstance(st, ast.Assign) and len(st.targets) == 1 and isinstance(st.targets[0], ast.Name) and st.targets[0].id in adjacent and adjacent[st.targets[0].id][0] is st):
                            continue
                        nm = st.targets[0].id
                        nxt = blk[i + 1]
                        uses_all = [x for x in ast.walk(fn) if isinstance(x, ast.Name) and x.id == nm and isinstance(x.ctx, ast.Load)]
                        uses_nxt = [x for x in ast.walk(nxt) if isinstance(x, ast.Name) and x.id == nm and isinstance(x.ctx, ast.Load)]
                        if len(uses_all) != 1 or len(uses_nxt) != 1 or isinstance(nxt, (ast.For, ast.While, ast.FunctionDef, ast.AsyncFunctionDef, ast.ClassDef, ast.With, ast.Try)):
                            continue
                        use = uses_nxt[0]
                        pos = (use.lineno, use.col_offset)
                        anc_calls = set()
                        # calls that contain the use
                        for c in ast.walk(nxt):
                            if isinstance(c, ast.Call) and any(y is use for y in ast.walk(c)):
                                anc_calls.add(id(c))
                        safe = True
                        for c in ast.walk(nxt):
                            if isinstance(c, ast.Call) and (c.lineno, c.col_offset) < pos and id(c) not in anc_calls:
                                safe = False
                            if isinstance(c, ast.Call) and id(c) in anc_calls and dotted(c.func) is None:
                                safe = False
                            if isinstance(c, (ast.Lambda, ast.ListComp, ast.SetComp, ast.DictComp, ast.GeneratorExp)) and any(y is use for y in ast.walk(c)):
                                safe = False
                        if not safe:
                            continue
                        new = _copy_chain(adjacent[nm][1])
                        for x in ast.walk(new):
                            ast.copy_location(x, use)
                        for par in ast.walk(nxt):
                            for f2, val in ast.iter_fields(par):
                                if val is use:
                                    setattr(par, f2, new)
                                elif isinstance(val, list):
                                    for k, ch in enumerate(val):
                                        if ch is use:
                                            val[k] = new
                        n_inlined += 1
        if not cands:
            continue
        for n in ast.walk(fn):
            for fld, val in ast.iter_fields(n):
                items = val if isinstance(val, list) else [val]
                for i, ch in enumerate(items):
                    if isinstance(ch, ast.Name) and isinstance(ch.ctx, ast.Load) and ch.id in cands:
                        asg, v = cands[ch.id]
                        if getattr(ch, "lineno", 0) <= getattr(asg, "end_lineno", asg.lineno):
                            continue
                        new = _copy_chain(v)
                        for x in ast.walk(new):
                            ast.copy_location(x, ch)
                        if isinstance(val, list):
                            val[i] = new
                        else:
                            setattr(n, fld, new)
                        n_inlined += 1
    return n_inlined


def expand_conditional_statements(tree: ast.Module) -> int:
    """Canonicalisation: inside functions, `t = A if c else B` and `return A if c else B` are re-written as the
    if/else statement they abbreviate (nested conditional expressions in the else arm become an elif chain).  Whether
    an author spells a two-way choice as a conditional expression or as a statement is not a property of the program;
    path-condition rules then see the test as a branch either way.  Locations are kept."""
    n_done = 0

    def split(st: ast.stmt) -> Optional[ast.If]:
        if isinstance(st, ast.Assign) and isinstance(st.value, ast.IfExp):
            mk = lambda v: ast.copy_location(ast.Assign(targets=[copy.deepcopy(t) for t in st.targets], value=v, type_comment=None), v)  # noqa: E731
        elif isinstance(st, ast.AnnAssign) and isinstance(st.value, ast.IfExp) and st.simple:
            mk = lambda v: ast.copy_location(ast.AnnAssign(target=copy.deepcopy(st.target), annotation=copy.deepcopy(st.annotation), value=v, simple=st.simple), v)  # noqa: E731
        elif isinstance(st, ast.Return) and isinstance(st.value, ast.IfExp):
            mk = lambda v: ast.copy_location(ast.Return(value=v), v)  # noqa: E731
        else:
            return None
        e = st.value
        a, b = mk(e.body), mk(e.orelse)
        node = ast.If(test=e.test, body=[split(a) or a], orelse=[split(b) or b])
        ast.copy_location(node, st)
        return node

    def unroll(st: ast.stmt) -> Optional[ast.stmt]:
        """`yield from (elt for t in it if c)`  ->  `for t in it: if c: yield elt`  (one generator, not async)."""
        if not (isinstance(st, ast.Expr) and isinstance(st.value, ast.YieldFrom) and isinstance(st.value.value, ast.GeneratorExp)):
            return None
        ge = st.value.value
        if len(ge.generators) != 1 or ge.generators[0].is_async:
            return None
        g = ge.generators[0]
        inner: ast.stmt = ast.copy_location(ast.Expr(value=ast.copy_location(ast.Yield(value=ge.elt), ge.elt)), ge.elt)
        for c in reversed(g.ifs):
            inner = ast.copy_location(ast.If(test=c, body=[inner], orelse=[]), c)
        loop = ast.For(target=g.target, iter=g.iter, body=[inner], orelse=[], type_comment=None)
        return ast.copy_location(loop, st)

    def unmatch(st: ast.stmt) -> Optional[ast.stmt]:
        """`match <name>:` whose cases are singletons / values / bare class patterns / alternatives of those / a final
        wildcard (each with an optional guard) is the if / elif / else chain over `is`, `==`, isinstance() it abbreviates."""
        if not isinstance(st, ast.Match) or not isinstance(st.subject, ast.Name):
            return None
        subj = st.subject

        def test_of(p: ast.pattern) -> Optional[ast.expr]:
            if isinstance(p, ast.MatchSingleton):
                return ast.Compare(left=copy.deepcopy(subj), ops=[ast.Is()], comparators=[ast.Constant(value=p.value)])
            if isinstance(p, ast.MatchValue):
                return ast.Compare(left=copy.deepcopy(subj), ops=[ast.Eq()], comparators=[p.value])
            if isinstance(p, ast.MatchClass) and not p.patterns and not p.kwd_patterns:
                return ast.Call(func=ast.Name(id="isinstance", ctx=ast.Load()), args=[copy.deepcopy(subj), p.cls], keywords=[])
            if isinstance(p, ast.MatchOr) and all(isinstance(q, ast.MatchClass) and not q.patterns and not q.kwd_patterns for q in p.patterns):
                # case A() | B(): one isinstance over the tuple of classes
                return ast.Call(func=ast.Name(id="isinstance", ctx=ast.Load()), args=[copy.deepcopy(subj), ast.Tuple(elts=[q.cls for q in p.patterns], ctx=ast.Load())], keywords=[])
            if isinstance(p, ast.MatchOr):
                parts = [test_of(q) for q in p.patterns]
                return ast.BoolOp(op=ast.Or(), values=parts) if all(x is not None for x in parts) else None  # type: ignore[arg-type]
            if isinstance(p, ast.MatchAs) and p.pattern is None and p.name is None:
                return ast.Constant(value=True)
            return None

        arms = []
        for c in st.cases:
            t = test_of(c.pattern)
            if t is None:
                return None
            if c.guard is not None:
                t = c.guard if isinstance(t, ast.Constant) and t.value is True else ast.BoolOp(op=ast.And(), values=[t, c.guard])
            arms.append((t, c.body, c))
        node: Optional[ast.If] = None
        tail: List[ast.stmt] = []
        for t, body, c in reversed(arms):
            if isinstance(t, ast.Constant) and t.value is True and node is None and not tail:
                tail = body
                continue
            new_if = ast.If(test=t, body=body, orelse=[node] if node is not None else tail)
            ast.copy_location(new_if, c.pattern)
            for x in ast.walk(t):
                if not hasattr(x, "lineno"):
                    ast.copy_location(x, c.pattern)
            node = new_if
        if node is None:
            return None
        return ast.copy_location(node, st)

    for fn in [n for n in ast.walk(tree) if isinstance(n, (ast.FunctionDef, ast.AsyncFunctionDef))]:
        for n in ast.walk(fn):
            for fld in ("body", "orelse", "finalbody"):
                blk = getattr(n, fld, None)
                if not isinstance(blk, list):
                    continue
                for i, st in enumerate(blk):
                    if isinstance(st, ast.stmt):
                        new = split(st) or unroll(st) or unmatch(st)
                        if new is not None:
                            blk[i] = new
                            n_done += 1
    if n_done:
        ast.fix_missing_locations(tree)
    return n_done


def set_parents(tree: ast.AST, mod: Optional[ModuleInfo] = None) -> None:
    for n in ast.walk(tree):
        for ch in ast.iter_child_nodes(n):
            ch._parent = n  # type: ignore[attr-defined]
        if mod is not None:
            n._mod = mod  # type: ignore[attr-defined]
    if not hasattr(tree, "_parent"):
        tree._parent = None  # type: ignore[attr-defined]


def parent(node: ast.AST) -> Optional[ast.AST]:
    return getattr(node, "_parent", None)


def enclosing_stmt(node: ast.AST) -> Optional[ast.stmt]:
    n: Optional[ast.AST] = node
    while n is not None and not isinstance(n, ast.stmt):
        n = parent(n)
    return n  # type: ignore[return-value]


def enclosing_func_node(node: ast.AST) -> Optional[FuncNode]:
    n = parent(node)
    while n is not None and not isinstance(n, (ast.FunctionDef, ast.AsyncFunctionDef, ast.Lambda)):
        n = parent(n)
    return n  # type: ignore[return-value]


def src(node: Optional[ast.AST]) -> str:
    if node is None:
        return "<none>"
    try:
        return ast.unparse(node)
    except Exception:  # pragma: no cover
        return f"<{type(node).__name__}>"


def short(node: Optional[ast.AST], n: int = 90) -> str:
    s = " ".join(src(node).split())
    return s if len(s) <= n else s[: n - 3] + "..."


# ---------------------------------------------------------------------------------------------
# Program
# ---------------------------------------------------------------------------------------------


class Program:
    def __init__(self, root: Optional[Path] = None, trees: Optional[Dict[str, ast.Module]] = None):
        self.root = Path(root) if root is not None else repo_root()
        self.pkg_dir = self.root / PKG_REL
        if not self.pkg_dir.is_dir():
            raise AnalysisError(f"package directory {self.pkg_dir} not found")
        self.modules: Dict[str, ModuleInfo] = {}
        self.functions: Dict[str, FuncInfo] = {}
        self.classes: Dict[str, ClassInfo] = {}
        self._by_name: Dict[str, List[ClassInfo]] = {}
        self._methods_by_name: Dict[str, List[FuncInfo]] = {}
        self._local_import_tab: Dict[int, Dict[str, Tuple[str, str]]] = {}
        self._callees_cache: Dict[Tuple[int, bool], List[Tuple[ast.Call, FuncInfo]]] = {}
        self._callers: Optional[Dict[str, List[Tuple[FuncInfo, ast.Call]]]] = None
        self._load(trees or {})
        self._index()

    # -- loading ------------------------------------------------------------------------------
    def _load(self, trees: Dict[str, ast.Module]) -> None:
        files = sorted(self.pkg_dir.rglob("*.py"))
        if len(files) < 20:
            raise AnalysisError(f"only {len(files)} python files under {self.pkg_dir}")
        for f in files:
            rel = f.relative_to(self.pkg_dir).with_suffix("")
            name = ".".join(rel.parts)
            if name.endswith("__init__"):
                name = name[: -len("__init__")].rstrip(".") or "__init__"
                if name != "__init__":
                    name = name + ".__init__"
            source = f.read_text()
            if name in trees:
                tree = trees[name]
            else:
                try:
                    tree = ast.parse(source, filename=str(f))
                except SyntaxError as e:
                    raise AnalysisError(f"cannot parse {f}: {e}") from None
            if not os.environ.get("ODCVERIF_NO_INLINE"):
                inline_attribute_copies(tree)
            if not os.environ.get("ODCVERIF_NO_INLINE") and not os.environ.get("ODCVERIF_NO_IFEXP"):
                expand_conditional_statements(tree)
            mi = ModuleInfo(name, f, source, tree)
            set_parents(tree, mi)
            self.modules[name] = mi

    def digest(self) -> str:
        h = hashlib.sha256()
        for name in sorted(self.modules):
            h.update(name.encode())
            h.update(self.modules[name].source.encode())
        return h.hexdigest()[:16]

    def with_tree(self, modname: str, tree: ast.Module) -> "Program":
        """A new Program in which module ``modname`` is replaced by ``tree`` (others re-parsed)."""
        return Program(self.root, {modname: tree})

    def clone_tree(self, modname: str) -> ast.Module:
        return copy.deepcopy(ast.parse(self.modules[modname].source))

    # -- indexing -----------------------------------------------------------------------------
    def _abs_module(self, cur: ModuleInfo, level: int, module: Optional[str]) -> Optional[str]:
        """Resolve a (possibly relative) import to a package-relative module name or None."""
        if level == 0:
            if module is None:
                return None
            if module == PKG_DOTTED:
                return "__init__"
            if module.startswith(PKG_DOTTED + "."):
                return self._norm_mod(module[len(PKG_DOTTED) + 1 :])
            return None
        parts = cur.name.split(".")
        # a module 'a.b' lives in package 'a'; '__init__' of package lives in itself
        pkg = parts[:-1]
        up = level - 1
        if up > len(pkg):
            return None
        base = pkg[: len(pkg) - up]
        tail = module.split(".") if module else []
        return self._norm_mod(".".join(base + tail))

    def _norm_mod(self, name: str) -> Optional[str]:
        if name == "":
            return "__init__"
        if name in self.modules:
            return name
        if name + ".__init__" in self.modules:
            return name + ".__init__"
        return None

    def _index(self) -> None:
        for mi in self.modules.values():
            self._index_imports(mi)
        for mi in self.modules.values():
            self._index_defs(mi)
        for ci in self.classes.values():
            for b in ci.base_exprs:
                tgt = self.resolve_name_expr(b, ci.mod)
                if isinstance(tgt, ClassInfo):
                    ci.bases.append(tgt)
                else:
                    e = b.value if isinstance(b, ast.Subscript) else b
                    tgt2 = self.resolve_name_expr(e, ci.mod)
                    if isinstance(tgt2, ClassInfo):
                        ci.bases.append(tgt2)
                    else:
                        ci.ext_bases.append(self.ext_name(e, ci.mod) or src(e))
        for fi in self.functions.values():
            if fi.cls is not None and fi.parent is None:
                self._methods_by_name.setdefault(fi.name, []).append(fi)

    def _index_imports(self, mi: ModuleInfo) -> None:
        for n in ast.walk(mi.tree):
            if isinstance(n, ast.Import):
                for a in n.names:
                    local = a.asname or a.name.split(".")[0]
                    target = a.name if a.asname else a.name.split(".")[0]
                    mi.imports.setdefault(local, ("ext", target))
            elif isinstance(n, ast.ImportFrom):
                absmod = self._abs_module(mi, n.level, n.module)
                for a in n.names:
                    local = a.asname or a.name
                    if absmod is not None:
                        # "from . import geom"  or "from .geom import box"
                        sub = self._norm_mod(self._submodule_name(absmod, a.name))
                        if sub is not None:
                            mi.imports.setdefault(local, ("mod", sub))
                        else:
                            mi.imports.setdefault(local, ("sym", absmod, a.name))
                    elif n.level == 0 and n.module:
                        mi.imports.setdefault(local, ("ext", f"{n.module}.{a.name}"))

    def _submodule_name(self, pkgmod: str, name: str) -> str:
        if pkgmod == "__init__":
            return name
        if pkgmod.endswith(".__init__"):
            return pkgmod[: -len("__init__")] + name
        return pkgmod + "." + name  # not a package: will not resolve

    def _index_defs(self, mi: ModuleInfo) -> None:
        def visit(body: Sequence[ast.stmt], cls: Optional[ClassInfo], par: Optional[FuncInfo], prefix: str):
            for st in body:
                self._visit_stmt_defs(st, mi, cls, par, prefix, visit)

        visit(mi.tree.body, None, None, f"{mi.name}:")
        # lambdas: give each a FuncInfo too (qual by enclosing + line/col)
        for n in ast.walk(mi.tree):
            if isinstance(n, ast.Lambda) and not hasattr(n, "_fi"):
                encl = enclosing_func_node(n)
                par = getattr(encl, "_fi", None) if encl is not None else None
                base = par.qual if par is not None else f"{mi.name}:<module>"
                k = sum(
                    1
                    for q in self.functions
                    if q.startswith(base + "/<lambda")
                )
                qual = f"{base}/<lambda#{k}>"
                fi = FuncInfo(mi, n, None, par, qual)
                n._fi = fi  # type: ignore[attr-defined]
                self.functions[qual] = fi

    def _visit_stmt_defs(self, st, mi, cls, par, prefix, visit) -> None:
        if isinstance(st, (ast.FunctionDef, ast.AsyncFunctionDef)):
            sep = "" if prefix.endswith(":") or prefix.endswith(".") or prefix.endswith("/") else ""
            qual = f"{prefix}{sep}{st.name}"
            # overloads / property setters share a name: keep the last non-stub as primary
            fi = FuncInfo(mi, st, cls if par is None else None, par, qual)
            st._fi = fi  # type: ignore[attr-defined]
            if qual in self.functions:
                old = self.functions[qual]
                if not fi.is_stub or old.is_stub:
                    # keep old reachable under a suffixed name
                    k = 1
                    while f"{qual}@{k}" in self.functions:
                        k += 1
                    self.functions[f"{qual}@{k}"] = old
                    old.qual = f"{qual}@{k}"
                    self.functions[qual] = fi
                else:
                    k = 1
                    while f"{qual}@{k}" in self.functions:
                        k += 1
                    fi.qual = f"{qual}@{k}"
                    self.functions[fi.qual] = fi
            else:
                self.functions[qual] = fi
            primary = self.functions[qual]
            if par is not None:
                par.nested[st.name] = primary
            elif cls is not None:
                cls.methods[st.name] = primary
            else:
                mi.functions[st.name] = primary
            visit(st.body, None, fi, fi.qual + "/")
        elif isinstance(st, ast.ClassDef):
            if par is None and cls is None:
                ci = ClassInfo(mi, st)
                self.classes[ci.qual] = ci
                self._by_name.setdefault(ci.name, []).append(ci)
                mi.classes[ci.name] = ci
                visit(st.body, ci, None, f"{mi.name}:{st.name}.")
            # nested classes: ignored (none in odc-geo that matter)
        elif isinstance(st, (ast.Assign, ast.AnnAssign)):
            targets = st.targets if isinstance(st, ast.Assign) else [st.target]
            val = st.value
            if val is not None:
                for t in targets:
                    if isinstance(t, ast.Name):
                        if par is None and cls is not None:
                            cls.class_assigns[t.id] = val
                        elif par is None and cls is None:
                            mi.assigns.setdefault(t.id, []).append(val)
        elif isinstance(st, (ast.If, ast.Try, ast.With)):
            # defs under `if TYPE_CHECKING:` / `if have.rasterio:` / try blocks
            for fld in ("body", "orelse", "finalbody"):
                visit(getattr(st, fld, []) or [], cls, par, prefix)
            for h in getattr(st, "handlers", []) or []:
                visit(h.body, cls, par, prefix)

    # -- lookup -------------------------------------------------------------------------------
    def module(self, name: str) -> ModuleInfo:
        if name not in self.modules:
            raise AnalysisError(f"module {name} vanished")
        return self.modules[name]

    def _follow_reexport(self, qual: str):
        """`mod:name[.method][/nested]` whose definition moved to another module but is still importable as `mod.name`
        (re-export, alias): the FuncInfo / ClassInfo it resolves to now."""
        if ":" not in qual:
            return None
        mod, rest = qual.split(":", 1)
        head, *nested = rest.split("/")
        parts = head.split(".")
        tgt = self.resolve_symbol(mod, parts[0])
        if isinstance(tgt, ClassInfo) and len(parts) == 2:
            tgt = tgt.find_method(parts[1])
        elif len(parts) != 1:
            return None
        if isinstance(tgt, FuncInfo):
            for nm in nested:
                tgt = tgt.nested.get(nm)
                if tgt is None:
                    return None
        return tgt

    def _thin_delegate(self, f: FuncInfo, _depth: int = 0) -> FuncInfo:
        """An anchor kept only as a compatibility alias - its whole body is `return <other>(<its own parameters, each once>)` -
        stands for the function it hands everything to (a function turned into a method, a renamed helper)."""
        if _depth > 2 or isinstance(f.node, ast.Lambda):
            return f
        body = [st for st in f.node.body if not (isinstance(st, ast.Expr) and isinstance(st.value, ast.Constant))]
        if len(body) != 1 or not isinstance(body[0], ast.Return) or not isinstance(body[0].value, ast.Call):
            return f
        c = body[0].value
        params = [a.arg for a in f.params()]
        argn = []
        if isinstance(c.func, ast.Attribute) and isinstance(c.func.value, ast.Name) and c.func.value.id in params:
            argn.append(c.func.value.id)  # receiver.method(...)
        for a in list(c.args) + [k.value for k in c.keywords]:
            if not isinstance(a, ast.Name):
                return f
            argn.append(a.id)
        if sorted(argn) != sorted(params) or not params:
            return f
        tg = [t for t in self.resolve_call(c, f) if not t.is_stub]
        if len(tg) != 1 or tg[0] is f:
            return f
        return self._thin_delegate(tg[0], _depth + 1)

    def func(self, qual: str) -> FuncInfo:
        if qual not in self.functions:
            tgt = self._follow_reexport(qual)
            if isinstance(tgt, FuncInfo):
                return self._thin_delegate(tgt)
            raise AnalysisError(f"anchor function {qual} not found")
        return self._thin_delegate(self.functions[qual])

    def maybe_func(self, qual: str) -> Optional[FuncInfo]:
        f = self.functions.get(qual)
        if f is None:
            tgt = self._follow_reexport(qual)
            if isinstance(tgt, FuncInfo):
                return tgt
        return f

    def cls(self, qual: str) -> ClassInfo:
        if qual in self.classes:
            return self.classes[qual]
        tgt = self._follow_reexport(qual)
        if isinstance(tgt, ClassInfo):
            return tgt
        cands = self._by_name.get(qual, [])
        if len(cands) == 1:
            return cands[0]
        raise AnalysisError(f"anchor class {qual} not found")

    def class_by_name(self, name: str) -> Optional[ClassInfo]:
        cands = self._by_name.get(name, [])
        return cands[0] if len(cands) == 1 else None

    def methods_named(self, name: str) -> List[FuncInfo]:
        return list(self._methods_by_name.get(name, []))

    def all_functions(self, modules: Optional[Iterable[str]] = None) -> List[FuncInfo]:
        mods = set(modules) if modules is not None else None
        return [
            f
            for q, f in sorted(self.functions.items())
            if mods is None or f.mod.name in mods
        ]

    # -- name resolution ----------------------------------------------------------------------
    def resolve_symbol(self, modname: str, sym: str, _depth: int = 0):
        """Resolve symbol exported by module -> FuncInfo | ClassInfo | ("value", node) | None."""
        mi = self.modules.get(modname)
        if mi is None or _depth > 6:
            return None
        if sym in mi.functions:
            return mi.functions[sym]
        if sym in mi.classes:
            return mi.classes[sym]
        if sym in mi.imports:
            imp = mi.imports[sym]
            if imp[0] == "sym":
                return self.resolve_symbol(imp[1], imp[2], _depth + 1)
            if imp[0] == "mod":
                return self.modules.get(imp[1])
            return None
        if sym in mi.assigns:
            v = mi.assigns[sym][-1]
            # alias:  w_ = WindowFromSlice()   /  dims = dimensions
            if isinstance(v, ast.Name):
                return self.resolve_symbol(modname, v.id, _depth + 1)
            return ("value", v)
        return None

    def resolve_name_expr(self, e: ast.AST, mi: ModuleInfo, fi: Optional[FuncInfo] = None):
        """Resolve Name / dotted Attribute to package entity (FuncInfo/ClassInfo/ModuleInfo) or None."""
        if isinstance(e, ast.Constant) and isinstance(e.value, str):
            # forward reference in annotations
            try:
                e = ast.parse(e.value, mode="eval").body
            except SyntaxError:
                return None
        if isinstance(e, ast.Name):
            f = fi
            while f is not None:
                if e.id in f.nested:
                    return f.nested[e.id]
                f = f.parent
            # function-local imports
            if fi is not None:
                loc = self._local_import(fi, e.id)
                if loc is not None:
                    return loc
            return self.resolve_symbol(mi.name, e.id)
        if isinstance(e, ast.Attribute):
            base = self.resolve_name_expr(e.value, mi, fi)
            if isinstance(base, ModuleInfo):
                return self.resolve_symbol(base.name, e.attr)
            if isinstance(base, ClassInfo):
                m = base.find_method(e.attr)
                if m is not None:
                    return m
            return None
        return None

    def _local_import(self, fi: FuncInfo, name: str):
        f: Optional[FuncInfo] = fi
        while f is not None:
            tab = self._local_import_tab.get(id(f))
            if tab is None:
                tab = {}
                for n in walk_own(f.node):
                    if isinstance(n, ast.ImportFrom):
                        absmod = self._abs_module(f.mod, n.level, n.module)
                        if absmod is None:
                            continue
                        for a in n.names:
                            tab[a.asname or a.name] = (absmod, a.name)
                self._local_import_tab[id(f)] = tab
            if name in tab:
                absmod, sym = tab[name]
                sub = self._norm_mod(self._submodule_name(absmod, sym))
                if sub is not None:
                    return self.modules[sub]
                return self.resolve_symbol(absmod, sym)
            f = f.parent
        return None

    def ext_name(self, e: ast.AST, mi: ModuleInfo) -> Optional[str]:
        """Dotted external name for Name/Attribute rooted at an external import, else bare dotted."""
        d = dotted(e)
        if d is None:
            return None
        head, *rest = d.split(".")
        imp = mi.imports.get(head)
        if imp is not None and imp[0] == "ext":
            return ".".join([imp[1], *rest])
        return d

    # -- call resolution ----------------------------------------------------------------------
    def resolve_call(self, call: ast.Call, fi: FuncInfo) -> List[FuncInfo]:
        """Package functions this call may invoke ([] when external/unknown)."""
        return self.resolve_callee_expr(call.func, fi)

    def resolve_callee_expr(self, f: ast.AST, fi: FuncInfo) -> List[FuncInfo]:
        mi = fi.mod
        tgt = self.resolve_name_expr(f, mi, fi)
        if isinstance(tgt, FuncInfo):
            return [tgt]
        if isinstance(tgt, ClassInfo):
            init = tgt.find_method("__init__")
            return [init] if init is not None else []
        if isinstance(f, ast.Attribute):
            recv = f.value
            # self.m(...) / cls-typed receivers
            for ci in self.receiver_classes(recv, fi):
                m = ci.find_method(f.attr)
                if m is not None:
                    return [m]
            # super().m()
            if (
                isinstance(recv, ast.Call)
                and isinstance(recv.func, ast.Name)
                and recv.func.id == "super"
                and fi.owner_class is not None
            ):
                for c in fi.owner_class.mro()[1:]:
                    if f.attr in c.methods:
                        return [c.methods[f.attr]]
        return []

    def resolve_call_by_name(self, call: ast.Call, fi: FuncInfo) -> List[FuncInfo]:
        """Like resolve_call but falls back to every package method with that attribute name."""
        r = self.resolve_call(call, fi)
        if r:
            return r
        if isinstance(call.func, ast.Attribute):
            return self.methods_named(call.func.attr)
        return []

    # -- light type inference -----------------------------------------------------------------
    def ann_classes(self, ann: Optional[ast.AST], mi: ModuleInfo) -> Tuple[Set[str], Set[str]]:
        """(class names mentioned directly, class names mentioned inside a container type)."""
        direct: Set[str] = set()
        contained: Set[str] = set()
        if ann is None:
            return direct, contained

        def go(e: ast.AST, inside: bool, depth: int):
            if depth > 8:
                return
            if isinstance(e, ast.Constant) and isinstance(e.value, str):
                try:
                    go(ast.parse(e.value, mode="eval").body, inside, depth + 1)
                except SyntaxError:
                    pass
                return
            if isinstance(e, ast.Subscript):
                head = dotted(e.value) or ""
                h = head.split(".")[-1]
                if h in ("Optional", "Union"):
                    go(e.slice, inside, depth + 1)
                elif h in ("Iterable", "List", "Sequence", "Iterator", "Tuple", "list", "tuple", "Set", "set"):
                    go(e.slice, True, depth + 1)
                else:
                    go(e.value, inside, depth + 1)
                return
            if isinstance(e, ast.Tuple):
                for x in e.elts:
                    go(x, inside, depth + 1)
                return
            if isinstance(e, ast.BinOp) and isinstance(e.op, ast.BitOr):
                go(e.left, inside, depth + 1)
                go(e.right, inside, depth + 1)
                return
            d = dotted(e)
            if d:
                tgt = self.resolve_name_expr(e, mi)
                if isinstance(tgt, ClassInfo):
                    (contained if inside else direct).add(tgt.name)
                elif isinstance(tgt, tuple) and tgt and tgt[0] == "value":
                    # type alias:  SomeGeoBox = Union[GeoBox, GCPGeoBox]
                    go(tgt[1], inside, depth + 1)
                else:
                    (contained if inside else direct).add(d.split(".")[-1])

        go(ann, False, 0)
        return direct, contained

    def receiver_classes(self, recv: ast.AST, fi: FuncInfo) -> List[ClassInfo]:
        """Classes the receiver expression may be an instance of (best effort, possibly empty)."""
        out: List[ClassInfo] = []
        if isinstance(recv, ast.Name):
            if recv.id == fi.self_name and fi.owner_class is not None:
                return [fi.owner_class]
            # parameter annotation (search enclosing functions too)
            f: Optional[FuncInfo] = fi
            while f is not None:
                for p in f.params():
                    if p.arg == recv.id and p.annotation is not None:
                        names, _ = self.ann_classes(p.annotation, f.mod)
                        for n in sorted(names):
                            ci = self.class_by_name(n)
                            if ci is not None:
                                out.append(ci)
                        return out
                f = f.parent
            # local assigned from constructor / annotated
            for n in walk_own(fi.node):
                if isinstance(n, ast.Assign) and len(n.targets) == 1:
                    t = n.targets[0]
                    if isinstance(t, ast.Name) and t.id == recv.id and isinstance(n.value, ast.Call):
                        tgt = self.resolve_name_expr(n.value.func, fi.mod, fi)
                        if isinstance(tgt, ClassInfo) and tgt not in out:
                            out.append(tgt)
                        elif isinstance(tgt, FuncInfo):
                            for c in self.return_classes(tgt):
                                if c not in out:
                                    out.append(c)
                elif isinstance(n, ast.AnnAssign) and isinstance(n.target, ast.Name) and n.target.id == recv.id:
                    names, _ = self.ann_classes(n.annotation, fi.mod)
                    for nm in sorted(names):
                        ci = self.class_by_name(nm)
                        if ci is not None and ci not in out:
                            out.append(ci)
            return out
        if isinstance(recv, ast.Call):
            tgt = self.resolve_name_expr(recv.func, fi.mod, fi)
            if isinstance(tgt, ClassInfo):
                return [tgt]
            if isinstance(tgt, FuncInfo):
                return self.return_classes(tgt)
            for callee in self.resolve_call(recv, fi):
                out.extend(self.return_classes(callee))
            return out
        if isinstance(recv, ast.Attribute):
            # property access:  self.base.crs  -> return annotation of property
            for ci in self.receiver_classes(recv.value, fi):
                m = ci.find_method(recv.attr)
                if m is not None and m.is_property:
                    out.extend(self.return_classes(m))
            return out
        return out

    def return_classes(self, f: FuncInfo) -> List[ClassInfo]:
        ann = getattr(f.node, "returns", None)
        names, _ = self.ann_classes(ann, f.mod)
        out = []
        for n in sorted(names):
            ci = self.class_by_name(n)
            if ci is not None:
                out.append(ci)
        return out

    # -- call graph ---------------------------------------------------------------------------
    def callers_of(self, fi: FuncInfo) -> List[Tuple[FuncInfo, ast.Call]]:
        if self._callers is None:
            tab: Dict[str, List[Tuple[FuncInfo, ast.Call]]] = {}
            for g in self.all_functions():
                for call, callee in self.callees(g):
                    tab.setdefault(callee.qual, []).append((g, call))
            self._callers = tab
        return list(self._callers.get(fi.qual, []))

    def callees(self, fi: FuncInfo, by_name: bool = False) -> List[Tuple[ast.Call, FuncInfo]]:
        ck = (id(fi), by_name)
        if ck in self._callees_cache:
            return self._callees_cache[ck]
        out = self._callees_cache.setdefault(ck, [])
        for n in walk_own(fi.node):
            if isinstance(n, ast.Call):
                rs = self.resolve_call_by_name(n, fi) if by_name else self.resolve_call(n, fi)
                for r in rs:
                    out.append((n, r))
        # nested functions and lambdas are part of the function for reachability purposes
        return out

    def closure_nodes(self, fi: "FuncInfo", node: Optional[ast.AST] = None, depth: int = 2, private_only: bool = True) -> Iterator[Tuple["FuncInfo", ast.AST]]:
        """Every node under `node` (default: the whole body of `fi`) and, transitively up to `depth` calls deep, every node of
        the package functions called from there - by default only private ones (leading underscore, nested, or methods called
        on self): the parts a function may have been split into.  Yields (function the node belongs to, node)."""
        seen: Set[str] = {fi.qual}

        def rec(f: "FuncInfo", root: ast.AST, d: int) -> Iterator[Tuple["FuncInfo", ast.AST]]:
            it = walk_own(root) if root is f.node else ast.walk(root)
            for n in it:
                yield f, n
                if d > 0 and isinstance(n, ast.Call):
                    for t in self.resolve_call(n, f):
                        if t.qual in seen or t.is_stub or isinstance(t.node, ast.Lambda):
                            continue
                        priv = t.name.startswith("_") and not t.name.startswith("__") or t.parent is not None
                        if private_only and not priv:
                            continue
                        seen.add(t.qual)
                        yield from rec(t, t.node, d - 1)

        yield from rec(fi, node if node is not None else fi.node, depth)

    def reachable(self, roots: Iterable[FuncInfo], by_name: bool = False, limit: int = 400) -> List[FuncInfo]:
        seen: Dict[str, FuncInfo] = {}
        todo = list(roots)
        while todo and len(seen) < limit:
            f = todo.pop()
            if f.qual in seen:
                continue
            seen[f.qual] = f
            for nf in f.nested.values():
                todo.append(nf)
            for n in ast.walk(f.node):
                if isinstance(n, ast.Lambda) and hasattr(n, "_fi"):
                    todo.append(n._fi)
            for _, callee in self.callees(f, by_name=by_name):
                todo.append(callee)
            # property reads on self / typed receivers
            for n in walk_own(f.node):
                if isinstance(n, ast.Attribute) and not isinstance(parent(n), ast.Call):
                    for ci in self.receiver_classes(n.value, f):
                        m = ci.find_method(n.attr)
                        if m is not None and m.is_property:
                            todo.append(m)
        return [seen[k] for k in sorted(seen)]


def func_of(node: ast.AST) -> Optional[FuncInfo]:
    fn = node if isinstance(node, (ast.FunctionDef, ast.AsyncFunctionDef, ast.Lambda)) else enclosing_func_node(node)
    return getattr(fn, "_fi", None) if fn is not None else None
