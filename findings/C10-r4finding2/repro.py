"""
C10: paste shortcut vs nearest-neighbour warp for non-native byte order pixel types.

numpy dtypes such as '>f4' / '>i2' are what xarray hands out for netCDF3 (scipy engine),
FITS, ENVI/raw big-endian rasters.  The planner declares the pair paste-able; pasting is
a plain numpy copy and is correct for any byte order.  The nearest-neighbour warp of the
same source onto the same destination grid (rio_reproject) hands the raw buffers to GDAL
as if they were native-endian:

  * source nodata is compared against byte-swapped pixels, so it never matches,
  * destination nodata / NaN fill is written native-endian into a big-endian array and
    reads back as garbage (NaN -> 6.9e-41, -9999 -> -3624, ...),
  * with a native-endian array on one side every pixel is byte-swapped garbage.

Expected: identical to the paste for every pixel type (or a loud error).
"""
import warnings

import numpy as np
from affine import Affine

from odc.geo.geobox import GeoBox
from odc.geo.overlap import compute_reproject_roi
from odc.geo.warp import rio_reproject

warnings.filterwarnings("ignore")

src = GeoBox((3, 4), Affine(10, 0, 500000, 0, -10, 6000000), "epsg:32633")
dst = GeoBox((5, 6), Affine(10, 0, 499990, 0, -10, 6000010), "epsg:32633")  # 1px shift

info = compute_reproject_roi(src, dst)
print("paste_ok:", info.paste_ok, "read_shrink:", info.read_shrink)
assert info.paste_ok and info.read_shrink == 1

failed = []


def check(label, src_img, dst_dtype, nodata, **kw):
    fill = np.nan if nodata is None else nodata
    pasted = np.full(dst.shape, fill, dtype=dst_dtype)
    pasted[info.roi_dst] = src_img[info.roi_src]
    # what paste does with source nodata pixels is the same thing: they hold `nodata`

    warped = np.full(dst.shape, fill, dtype=dst_dtype)
    rio_reproject(src_img, warped, src, dst, "nearest", dst_nodata=nodata, **kw)
    ok = np.array_equal(pasted, warped, equal_nan=True)
    print(f"\n[{label}] {'same' if ok else 'DIFFERENT'}")
    if not ok:
        print(" expected (paste):\n", pasted)
        print(" observed (warp):\n", warped)
        failed.append(label)


# control: native byte order is fine
check("float32 native, default NaN fill", np.arange(1, 13, dtype="<f4").reshape(3, 4), "<f4", None)

# 1. big-endian float32 on both sides, default fill (NaN)
check("float32 big-endian, default NaN fill", np.arange(1, 13, dtype=">f4").reshape(3, 4), ">f4", None)

# 2. big-endian int16 on both sides, nodata -9999 on both sides, one nodata pixel in the source
img = np.arange(1, 13, dtype=">i2").reshape(3, 4)
img[1, 1] = -9999
check("int16 big-endian, nodata=-9999", img, ">i2", -9999, src_nodata=-9999)

# 3. big-endian source (as read from file) into a native destination
check("float32 big-endian source -> native destination", np.arange(1, 13, dtype=">f4").reshape(3, 4), "<f4", None)

assert not failed, f"nearest warp differs from paste for: {failed}"
print("OK")
