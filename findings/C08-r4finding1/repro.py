"""
C08: GeoBox.from_geopolygon(poly, resolution=..., crs=<other CRS>) does not cover the region.

The region is densified with a step that depends only on the region's own size
(_auto_resolution: sqrt(area)*4/100, i.e. ~25 segments per side), never on the requested pixel
size.  The extreme point of a curved edge generally falls between two samples, so the bounding
box that is snapped to the grid is too small by the sagitta of one segment.  For country /
continent sized regions at 10..30 m pixels that is several whole pixels, far more than the
stated tolerance (tol=0.01 pixel).

Oracle: pyproj point transforms of a very dense (20001 points/edge) sampling of the same
polygon boundary; every such point is part of the region, so it must be inside the GeoBox
(up to tol pixels).
"""
import sys
import warnings

import numpy as np
from pyproj import Transformer

from odc.geo import geom
from odc.geo.geobox import GeoBox

warnings.filterwarnings("ignore")

TOL = 0.01  # default tol of from_geopolygon, fraction of a pixel

CASES = [
    # name, polygon bounds in lon/lat, destination CRS, pixel size (m)
    ("Europe -> ETRS89-LAEA 10 m", (-7.3, 49.77, 20.47, 69.63), "epsg:3035", 10),
    ("CONUS -> Albers 30 m", (-118.2, 29.68, -71.53, 42.7), "epsg:5070", 30),
    ("Australia -> Albers 30 m", (116.16, -41.34, 151.68, -21.66), "epsg:3577", 30),
]


def true_bounds(pts, src, dst, n=20001):
    tr = Transformer.from_crs(src, dst, always_xy=True)
    t = np.linspace(0, 1, n)
    xs, ys = [], []
    for (x0, y0), (x1, y1) in zip(pts[:-1], pts[1:]):
        X, Y = tr.transform(x0 + (x1 - x0) * t, y0 + (y1 - y0) * t)
        xs.append(X)
        ys.append(Y)
    X = np.concatenate(xs)
    Y = np.concatenate(ys)
    assert np.isfinite(X).all() and np.isfinite(Y).all()
    return float(X.min()), float(Y.min()), float(X.max()), float(Y.max())


worst = 0.0
for name, (x0, y0, x1, y1), dst, res in CASES:
    pts = [(x0, y0), (x1, y0), (x1, y1), (x0, y1), (x0, y0)]
    poly = geom.polygon(pts, "epsg:4326")
    gbox = GeoBox.from_geopolygon(poly, resolution=res, crs=dst)
    bb = gbox.boundingbox
    L, B, R, T = true_bounds(pts, "epsg:4326", dst)
    miss = {
        "left": (bb.left - L) / res,
        "bottom": (bb.bottom - B) / res,
        "right": (R - bb.right) / res,
        "top": (T - bb.top) / res,
    }
    side, m = max(miss.items(), key=lambda kv: kv[1])
    # second oracle: the library's own projection code, just with a much finer explicit step
    fine = poly.to_crs(dst, resolution=0.002).boundingbox
    miss2 = max(
        (bb.left - fine.left) / res,
        (bb.bottom - fine.bottom) / res,
        (fine.right - bb.right) / res,
        (fine.top - bb.top) / res,
    )
    worst = max(worst, m)
    print(f"{name}: geobox shape={tuple(gbox.shape)} res={gbox.resolution.xy}")
    print(f"   region bounds in {dst} (pyproj, dense): {(L, B, R, T)}")
    print(f"   geobox bounds                        : {tuple(bb.bbox)}")
    print(f"   expected: region sticks out of the geobox by at most tol={TOL} pixel on any side")
    print(f"   observed: region sticks out by {m:.3f} pixels ({m * res:.1f} m) on the {side} side")
    print(f"   (same check against poly.to_crs(dst, resolution=0.002).boundingbox: {miss2:.3f} pixels)")

if worst > TOL + 1e-3:
    print(f"FAIL: region not covered, worst miss {worst:.3f} pixels > tol {TOL}")
    sys.exit(1)
print("ok")
