"""
C20 finding 1: Poly2d.fit / norm_xy break when a control point coincides with
the centroid of the point set (regular 3x3 / 5x5 ... grids, "4 corners + centre").

Property clause: "affine and 2-D polynomial fits reproduce exactly representable
mappings" for point sets in general position.

A regular 3x3 grid is THE unisolvent point set for the bi-quadratic model and
"4 corners + centre" is a perfectly good set for the bilinear one; the mapping
used here is a plain affine (exactly representable by every model).
"""
import sys
import warnings

import numpy as np
from affine import Affine

from odc.geo.math import Poly2d, norm_xy

warnings.simplefilter("ignore")

M = Affine.translation(500_000, 6_000_000) * Affine.scale(10, -10)


def mk_bb(aa):
    x, y = M * (aa[:, 0], aa[:, 1])
    return np.stack([x, y], axis=1)


def check(name, aa):
    bb = mk_bb(aa)
    has_c = bool((aa == aa.mean(axis=0)).all(axis=1).any())
    print(f"--- {name}: {aa.shape[0]} points, centroid {aa.mean(axis=0)}, centroid is a control point: {has_c}")
    print("expected: Poly2d.fit(aa, bb)(aa) == bb  (max abs error ~1e-9)")
    try:
        p = Poly2d.fit(aa, bb)
        out = p(aa)
        err = np.abs(out - bb).max()
    except Exception as e:  # pylint: disable=broad-except
        print(f"observed: {type(e).__name__}: {e}")
        return False
    print(f"observed: max abs error = {err}")
    return bool(np.isfinite(err) and err < 1e-6)


ok = True

# 1. the normalisation helper itself
pts = np.asarray([[0, 0], [100, 0], [100, 100], [0, 100], [50, 50]], dtype="float64")
nn, A = norm_xy(pts)
print("norm_xy(4 corners + centre): scale =", A.a, " finite output:", bool(np.isfinite(nn).all()))
ok &= bool(np.isfinite(nn).all())

# 2. regular 3x3 grid -> bi-quadratic fit
xs, ys = np.meshgrid([0.0, 50.0, 100.0], [0.0, 50.0, 100.0])
ok &= check("3x3 grid", np.stack([xs.ravel(), ys.ravel()], axis=1))

# 3. 4 corners + centre -> bilinear fit
ok &= check("corners+centre", pts)

# control: same thing with an even grid (centroid is not a control point) works
xs, ys = np.meshgrid([0.0, 30.0, 60.0, 90.0], [0.0, 30.0, 60.0, 90.0])
assert check("4x4 grid (control)", np.stack([xs.ravel(), ys.ravel()], axis=1))

if not ok:
    print("FAIL: fit does not reproduce an exactly representable mapping")
    sys.exit(1)
print("OK")
