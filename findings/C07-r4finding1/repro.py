"""
C07 - to_crs(..., wrapdateline=True) cuts a polygon in Britain in two.

A square over Cornwall / South Wales given in the British National Grid (EPSG:27700),
175 degrees of longitude away from the antimeridian and well inside the valid area
of both CRSs.  Converting it to EPSG:4326 must give a Polygon with the same 5 vertices
(each mapped as pyproj maps it), and wrapdateline=True must make no difference
because the geometry does not come anywhere near lon=180.
"""
import sys

import numpy as np
import pyproj

from odc.geo.geom import box, projected_lon

src, dst = "EPSG:27700", "EPSG:4326"
g = box(100_000, 0, 300_000, 200_000, src)  # easting 100..300 km, northing 0..200 km

plain = g.to_crs(dst)
wrapped = g.to_crs(dst, wrapdateline=True)

tr = pyproj.Transformer.from_crs(src, dst, always_xy=True)
expect = [tr.transform(x, y) for x, y in g.exterior.coords]

print("source            :", g.geom.wkt)
print("lon range         :", plain.boundingbox.range_x, "(nowhere near +-180)")
print("expected          : Polygon,", len(expect), "vertices")
print("plain to_crs      :", plain.geom_type, len(plain.exterior.coords), "vertices")
print("wrapdateline=True :", wrapped.geom_type, "with", len(list(wrapped.geoms)) or 1, "part(s)")
print("                   ", wrapped.geom.wkt[:200], "...")

# where the cut comes from: the 'antimeridian' projected into EPSG:27700
l180 = projected_lon(g.crs, 180, step=0.1)
# (diagnostic adapted at triage: after the repair the projected meridian comes back in pieces)
for piece in (list(l180.geoms) if l180.geom_type.startswith("Multi") else [l180]):
    pts = np.asarray(piece.coords)
    jump = np.hypot(*np.diff(pts, axis=0).T)
    k = int(jump.argmax())
    print(f"projected lon=180 piece: longest segment {jump[k]/1000:.0f} km from {pts[k]} to {pts[k+1]}")

assert plain.geom_type == "Polygon"
assert np.allclose(np.asarray(plain.exterior.coords), np.asarray(expect), rtol=0, atol=1e-9)

ok = (
    wrapped.geom_type == "Polygon"
    and len(wrapped.exterior.coords) == len(expect)
    and np.allclose(np.asarray(wrapped.exterior.coords), np.asarray(expect), rtol=0, atol=1e-9)
)
if not ok:
    print("FAIL: expected the same Polygon as without wrapdateline, observed", wrapped.geom_type)
    sys.exit(1)
print("OK")
