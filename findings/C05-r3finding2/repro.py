"""
C05 finding 2: irregular (non-uniform) source chunking whose LARGEST chunk equals the
tile size is not rechunked, so tiles are cut from mis-aligned source blocks and the
file silently decodes to the wrong pixels.

This is exactly what one gets after cropping a dask-backed raster (xx[16:, :]) and
saving with the default blocksize (which is taken from data.chunksize).

Expected: file decodes to the original pixels (for all source chunkings).
Observed: rows/columns are shifted and fill-value stripes appear inside the image.
"""
import os
import tempfile
import warnings

import dask.array as da
import numpy as np
import rasterio
import tifffile
from affine import Affine

from odc.geo.cog import save_cog_with_dask
from odc.geo.geobox import GeoBox
from odc.geo.xr import wrap_xr

warnings.filterwarnings("ignore")

problems = []


def check(label, xx, pix, **kw):
    with tempfile.TemporaryDirectory() as td:
        fname = os.path.join(td, "out.tif")
        save_cog_with_dask(xx, fname, **kw).compute(scheduler="synchronous")
        with rasterio.open(fname) as src:
            got_rio = src.read(1)[: pix.shape[0], : pix.shape[1]]
        with tifffile.TiffFile(fname) as tf:
            got_tf = tf.pages[0].asarray()[: pix.shape[0], : pix.shape[1]]
    nbad_rio = int((got_rio != pix).sum())
    nbad_tf = int((got_tf != pix).sum())
    print(
        f"{label}: chunks={xx.data.chunks} -> expected 0 differing pixels, "
        f"observed rasterio={nbad_rio} tifffile={nbad_tf} of {pix.size}"
    )
    if nbad_rio or nbad_tf:
        problems.append((label, nbad_rio, nbad_tf))


# (a) explicit irregular chunking, explicit blocksize
shape = (70, 90)
gbox = GeoBox(shape, Affine(10, 0, 1000, 0, -10, 5000), "epsg:3857")
pix = np.arange(1, shape[0] * shape[1] + 1, dtype="uint16").reshape(shape)
xx = wrap_xr(da.from_array(pix, chunks=((16, 32, 22), (32, 32, 26))), gbox)
check("explicit irregular chunks, blocksize=[32,16]", xx, pix, blocksize=[32, 16])

# (b) realistic: crop a regularly chunked raster, save with ALL DEFAULT options
shape = (160, 128)
gbox = GeoBox(shape, Affine(10, 0, 1000, 0, -10, 5000), "epsg:3857")
big = np.arange(1, shape[0] * shape[1] + 1, dtype="uint16").reshape(shape)
yy = wrap_xr(da.from_array(big, chunks=(64, 64)), gbox)
crop = yy[16:, :]  # dask chunks along y are now (48, 64, 32)
assert crop.odc.geobox.shape == (144, 128)
check("cropped raster, default options", crop, big[16:, :])

# control: same data, regular chunking -> fine
xx = wrap_xr(da.from_array(pix, chunks=(32, 32)), GeoBox((70, 90), Affine(10, 0, 1000, 0, -10, 5000), "epsg:3857"))
check("control, regular chunks", xx, pix, blocksize=[32, 16])

assert not problems, f"files do not decode to the original pixels: {problems}"
print("all good")
