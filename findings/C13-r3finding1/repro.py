"""
C13 finding 1: same CRS (EPSG:4326), nearest neighbour, global 0..360 longitude
grid reprojected onto a -180..180 grid.

In memory (and with a single dask chunk) GDAL wraps longitudes, so the western
hemisphere of the output is filled from source columns 180..360.  With the
source/destination split into chunks the western hemisphere is all fill.
"""
import warnings

import numpy as np

from odc.geo.geobox import GeoBox
from odc.geo.xr import wrap_xr

warnings.simplefilter("ignore")

src_gbox = GeoBox.from_bbox((0, -90, 360, 90), "epsg:4326", resolution=1)
dst_gbox = GeoBox.from_bbox((-180, -90, 180, 90), "epsg:4326", resolution=1)

data = np.random.default_rng(0).integers(1, 200, size=src_gbox.shape.yx).astype("int16")
xx = wrap_xr(data, src_gbox)

ref = xx.odc.reproject(dst_gbox, resampling="nearest").values

one = (
    xx.chunk({"latitude": 180, "longitude": 360})
    .odc.reproject(dst_gbox, resampling="nearest", chunks=(180, 360))
    .compute(scheduler="synchronous")
    .values
)
many = (
    xx.chunk({"latitude": 90, "longitude": 90})
    .odc.reproject(dst_gbox, resampling="nearest", chunks=(90, 90))
    .compute(scheduler="synchronous")
    .values
)

print("in-memory: west half == source columns 180..360 :", np.array_equal(ref[:, :180], data[:, 180:]))
print("dask, one chunk  == in-memory :", np.array_equal(one, ref))
print("dask, 90x90 chunks == in-memory :", np.array_equal(many, ref))
print("dask, 90x90 chunks: west half all zero fill :", bool((many[:, :180] == 0).all()))
print("expected: chunked result identical to the in-memory result (same CRS, nearest)")
print(f"observed: {(many != ref).sum()} of {ref.size} pixels differ")

assert np.array_equal(one, ref), "single-chunk dask differs from in-memory"
assert np.array_equal(many, ref), "chunked reprojection differs from in-memory reprojection"
