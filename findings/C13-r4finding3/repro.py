"""
C13: for a raster held in a non-native byte order dtype ('>i2', '>f4' - what e.g. the netCDF3/scipy
backend of xarray hands out) the in-memory reprojection returns byte-swapped fill values (and garbage
for interpolating resampling), the chunked (dask) reprojection of the same data returns the right
pixels - chunked != in-memory, and uncovered destination pixels do not hold the nodata value.

run:  PYTHONPATH=/tmp/seed/C13 /venv/bin/python repro.py
"""
import warnings

import numpy as np
import xarray as xr
from affine import Affine

from odc.geo.geobox import GeoBox
from odc.geo.xr import xr_coords

warnings.filterwarnings("ignore")

sg = GeoBox((4, 5), Affine(10, 0, 500000, 0, -10, 4000000), "EPSG:32633")
# same CRS, same grid, one pixel of margin all around -> the margin must be filled with nodata
dg = GeoBox((6, 7), Affine(10, 0, 500000 - 10, 0, -10, 4000000 + 10), "EPSG:32633")

failures = []
for dt, nodata in [(">i2", 256), (">f4", 256.0), (">f4", None), ("<i2", 256)]:
    native = np.dtype(dt).newbyteorder("=")
    data = (np.arange(20).reshape(4, 5) + 1).astype(dt)
    attrs = {} if nodata is None else {"nodata": nodata}
    xx = xr.DataArray(data, dims=sg.dimensions, coords=xr_coords(sg), attrs=attrs)

    fill = nodata if nodata is not None else np.nan
    expect = np.full(dg.shape, fill, dtype=native)
    expect[1:5, 1:6] = data

    for rs in ("nearest", "bilinear"):
        ref = xx.odc.reproject(dg, resampling=rs).values
        got = xx.chunk(3).odc.reproject(dg, resampling=rs, chunks=(4, 4)).compute(scheduler="synchronous").values
        ok_ref = np.array_equal(ref.astype(native), expect, equal_nan=True)
        ok_got = np.array_equal(got.astype(native), expect, equal_nan=True)
        same = np.array_equal(ref.astype(native), got.astype(native), equal_nan=True)
        print(f"dtype {dt!s:>4} nodata {nodata!s:>6} {rs:>8}: in-memory correct: {ok_ref!s:5}  chunked correct: {ok_got!s:5}  chunked == in-memory: {same}")
        if not (ok_ref and ok_got and same):
            failures.append((dt, nodata, rs))
            if rs != 'nearest':
                continue
            print("   expected (aligned grid, 1px nodata margin):")
            print("   " + str(expect).replace("\n", "\n   "))
            print("   in-memory:")
            print("   " + str(ref).replace("\n", "\n   "))
            print("   chunked:")
            print("   " + str(got).replace("\n", "\n   "))

# interpolation on byte-swapped numbers: half a pixel shift, bilinear, no nodata involved in the interior
dg2 = GeoBox((3, 4), Affine(10, 0, 500000 + 5, 0, -10, 4000000 - 5), "EPSG:32633")
data = (np.arange(20).reshape(4, 5) + 1).astype(">f4")
xx = xr.DataArray(data, dims=sg.dimensions, coords=xr_coords(sg))
ref = xx.odc.reproject(dg2, resampling="bilinear").values
got = xx.chunk(3).odc.reproject(dg2, resampling="bilinear", chunks=(2, 2)).compute(scheduler="synchronous").values
print("bilinear, half-pixel shift, '>f4' (expected 4 5 6 7 / 9 10 11 12 / 14 15 16 17):")
print("   in-memory:", ref.tolist())
print("   chunked  :", got.tolist())
if not np.allclose(ref.astype("f4"), got.astype("f4")):
    failures.append((">f4", None, "bilinear half-pixel shift"))

assert not failures, f"in-memory and chunked reprojection disagree / wrong fill for {failures}"
print("OK")
