"""
C15 finding 3: write_cog / to_cog ignore the ORDER of the spatial dimensions of the DataArray.
A geo-registered array whose dims are ("x", "y") (e.g. after xx.transpose("x", "y"), or data that
is stored longitude-major) has a perfectly good .odc.geobox, but the writer takes `pix.shape` as
(height, width) without looking at odc.xdim/odc.ydim:
  * square image   -> a COG is written silently with the raster TRANSPOSED relative to its
                      transform (every off-diagonal pixel is at the wrong place on the ground),
  * non-square     -> bare `AssertionError` (no message) / "GeoBox shape does not match image shape".

Run:  PYTHONPATH=/tmp/seed/C15 /venv/bin/python repro.py
"""
import warnings

import numpy as np
from affine import Affine
from rasterio.io import MemoryFile

from odc.geo.cog import to_cog
from odc.geo.geobox import GeoBox
from odc.geo.xr import wrap_xr

warnings.simplefilter("ignore")

N = 64
gbox = GeoBox((N, N), Affine(10, 0, 500000, 0, -10, 6000000), "EPSG:32633")
pix = np.arange(N * N, dtype="int32").reshape(N, N)  # pix[row, col]
yx = wrap_xr(pix, gbox)  # dims (y, x)
xy = yx.transpose("x", "y")  # same geo-registered data, dims (x, y)

assert xy.dims == ("x", "y")
assert xy.odc.geobox == gbox, "geobox of the transposed array is the same grid"
assert (xy.odc.ydim, xy.odc.xdim) == (1, 0), "accessor knows y is axis 1 and x is axis 0"
assert xy.identical(yx.transpose("x", "y")) and bool((xy == yx).all()), "xarray: same data"

problems = []

with MemoryFile(to_cog(yx)) as mf, mf.open() as src:
    ref = src.read(1)
    assert np.array_equal(ref, pix) and src.transform == gbox.transform  # control

with MemoryFile(to_cog(xy)) as mf, mf.open() as src:
    got = src.read(1)
    same_grid = src.transform == gbox.transform and src.crs.to_epsg() == 32633

# independent oracle: value of the array at the ground location of file pixel (row, col)
rows, cols = np.meshgrid(np.arange(N), np.arange(N), indexing="ij")
X, Y = gbox.transform * (cols + 0.5, rows + 0.5)
expected = np.empty((N, N), dtype=pix.dtype)
for r in range(N):
    expected[r] = xy.sel(y=Y[r, 0]).sel(x=X[r], method="nearest").values

n_wrong = int((got != expected).sum())
print(f"2-D dims {xy.dims}, shape {xy.shape}: transform/crs in file same as geobox: {same_grid}")
print(f"   expected : file[row, col] == array value at that ground location (== the (y, x) ordered write)")
print(f"   observed : {n_wrong} of {N*N} pixels differ; file == transposed raster: {np.array_equal(got, pix.T)}")
if n_wrong:
    problems.append(f"(x, y) square image written transposed, {n_wrong} wrong pixels")

# same thing with a leading band/time axis: dims (time, x, y)
cube = wrap_xr(np.stack([pix, pix + 1]), gbox, time=["2020-01-01", "2020-01-02"])
cube_xy = cube.transpose("time", "x", "y")
with MemoryFile(to_cog(cube_xy)) as mf, mf.open() as src:
    got3 = src.read()
ok3 = np.array_equal(got3, cube.values)
print(f"3-D dims {cube_xy.dims}: expected bands == (y, x) rasters; observed equal={ok3}, transposed={np.array_equal(got3, cube.values.transpose(0, 2, 1))}")
if not ok3:
    problems.append("(time, x, y) cube written with every band transposed")

# non-square: no result, and not a meaningful error either
gbox2 = GeoBox((40, 50), gbox.transform, gbox.crs)
xy2 = wrap_xr(np.zeros((40, 50), "uint8"), gbox2).transpose("x", "y")
try:
    to_cog(xy2)
    print("non-square (x, y): written")
except Exception as e:  # pylint: disable=broad-except
    print(f"non-square dims {xy2.dims} shape {xy2.shape}: observed {type(e).__name__}({str(e)!r})")

assert not problems, "; ".join(problems)
print("ok")
