"""
C08 finding 3: integer shape + region of zero height crashes with ZeroDivisionError, while the
mirrored input (zero width) works, and so does the same region with resolution=.
"""
import sys
import traceback
import warnings

warnings.filterwarnings("ignore")

from odc.geo import geom
from odc.geo.geobox import GeoBox

# zero width (vertical line): fine, 1 column, 10 rows
v = GeoBox.from_geopolygon(geom.line([(3.5, 0.5), (3.5, 10.5)], "epsg:3857"), shape=10, tight=True)
print("vertical line,   shape=10 ->", v.shape.shape, v.resolution.xy)
assert v.shape == (10, 1)

# zero height with a resolution: fine, 1 row
r = GeoBox.from_bbox((0.5, 3.5, 10.5, 3.5), "epsg:3857", resolution=1, tight=True)
print("horizontal line, resolution=1 ->", r.shape.shape)
assert r.shape == (1, 10)

# zero height (horizontal line) with int shape: expected the transposed result of the first case
print("horizontal line, shape=10: expected shape (1, 10) with 1x1 pixels, observed:")
try:
    h = GeoBox.from_geopolygon(
        geom.line([(0.5, 3.5), (10.5, 3.5)], "epsg:3857"), shape=10, tight=True
    )
except ZeroDivisionError:
    traceback.print_exc()
    print("FAIL: ZeroDivisionError")
    sys.exit(1)
print(h.shape.shape, h.resolution.xy)
assert h.shape == (1, 10)
print("OK")
