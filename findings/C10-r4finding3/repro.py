"""
C10: paste shortcut vs nearest-neighbour warp when the source has no nodata of its own
(src_nodata=None) and the destination is filled with a nodata value that also occurs
as a VALID pixel value in the source.

Paste: valid pixels are copied unchanged, the rest stays at the destination nodata.
Warp (rio_reproject, nearest): GDAL "avoids" the destination nodata for valid pixels and
nudges them by one (uint8 0 -> 1, uint16 65535 -> 65534, float32 -9999 -> -9998.999).
Through the int8 -> int16 conversion detour of _rio_reproject this gets much worse:
GDAL nudges int16 -128 to -129, which the unsafe cast back to int8 turns into +127,
i.e. the darkest valid pixel comes back as the brightest one.

Expected: warp == paste, pixel for pixel (property C10, read_shrink == 1).
"""
import warnings

import numpy as np
from affine import Affine

from odc.geo.geobox import GeoBox
from odc.geo.overlap import compute_reproject_roi
from odc.geo.warp import rio_reproject

warnings.filterwarnings("ignore")

src = GeoBox((3, 4), Affine(10, 0, 500000, 0, -10, 6000000), "epsg:32633")
dst = GeoBox((5, 6), Affine(10, 0, 499990, 0, -10, 6000010), "epsg:32633")  # 1px shift

info = compute_reproject_roi(src, dst)
print("paste_ok:", info.paste_ok, "read_shrink:", info.read_shrink)
assert info.paste_ok and info.read_shrink == 1

failed = []


def check(dtype, values, nodata):
    src_img = np.asarray(values, dtype=dtype).reshape(3, 4)
    pasted = np.full(dst.shape, nodata, dtype=dtype)
    pasted[info.roi_dst] = src_img[info.roi_src]

    warped = np.full(dst.shape, nodata, dtype=dtype)
    # source has no nodata: every source pixel is valid data
    rio_reproject(src_img, warped, src, dst, "nearest", src_nodata=None, dst_nodata=nodata)

    ok = np.array_equal(pasted, warped)
    print(f"\n[{dtype}, dst_nodata={nodata}] {'same' if ok else 'DIFFERENT'}")
    if not ok:
        print(" expected (paste):\n", pasted)
        print(" observed (warp):\n", warped)
        failed.append(f"{dtype}/nodata={nodata}")


# control: no collision between valid values and the fill value
check("int8", [-100, -50, 0, 50, 100, 1, 2, 3, 4, 5, 6, 7], -128)

# int8 detour: valid -128 comes back as +127
check("int8", [-128, -127, 0, 50, 100, 1, 2, 3, 4, 5, 6, 127], -128)

# plain GDAL nodata avoidance, no detour: valid 0 comes back as 1
check("uint8", [0, 1, 2, 3, 4, 5, 6, 7, 8, 9, 10, 255], 0)

assert not failed, f"nearest warp differs from paste for: {failed}"
print("OK")
