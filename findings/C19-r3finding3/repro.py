"""
C19 / transformer clause: "A coordinate transformer obtained for a (source CRS,
target CRS) pair always converts between exactly those two systems ... no matter
which and how many other CRS objects were created, dropped or garbage-collected
before".

The construction cache (_make_crs, cachetools.cached WITHOUT a lock) is a
check-then-act: two threads that build the *same, not yet cached* specification at
the same time both miss, both build their own pyproj CRS, and the second one
overwrites the first one's cache entry.  The first thread's CRS then wraps a pyproj
object that is NOT pinned by _crs_cache.  The transformer cache is keyed by id() of
the pyproj objects, so once that CRS is dropped and its id is re-used by the pyproj
object of some other (properly cached) CRS, transformer_to_crs() hands out the
transformer of the dead CRS.

The interleaving is forced deterministically with a barrier placed in the
to_wkt() method of a CRS-like object (CRS() accepts "any object that implements
.to_wkt()"); with plain strings the window is the same, just not deterministic.
"""
import gc
import threading
import warnings

warnings.filterwarnings("ignore")

from pyproj import Transformer  # noqa: E402

from odc.geo import CRS  # noqa: E402
from odc.geo.crs import _crs_cache  # noqa: E402

DST = CRS("EPSG:4326")
PROBE = (500_000.0, 1_000_000.0)


class WktSpec:
    """CRS-like (has .to_wkt()), unhashable, so the cache key is the WKT text."""

    __hash__ = None  # type: ignore

    def __init__(self, wkt, barrier):
        self._wkt = wkt
        self._barrier = barrier
        self._n = 0

    def to_wkt(self, *args, **kw):
        self._n += 1
        if self._n == 2:
            # 1st call computed the cache key (a miss), 2nd call is inside
            # _make_crs: wait here until the other thread has missed as well
            self._barrier.wait(timeout=30)
        return self._wkt


def race(wkt):
    """Two threads construct CRS from the same new spec simultaneously."""
    barrier = threading.Barrier(2)
    out = [None, None]

    def work(i):
        out[i] = CRS(WktSpec(wkt, barrier))

    tt = [threading.Thread(target=work, args=(i,)) for i in range(2)]
    for t in tt:
        t.start()
    for t in tt:
        t.join()
    return out


def expected(crs):
    return Transformer.from_crs(crs.proj, DST.proj, always_xy=True).transform(*PROBE)


# southern-hemisphere UTM zones (as WKT text) play the part of the raced CRS
wkts = {
    CRS(f"+proj=utm +zone={zone} +south +datum=WGS84 +units=m +no_defs +type=crs").wkt: (
        f"WKT of UTM zone {zone} SOUTH"
    )
    for zone in range(1, 31)
}
# CRSs used afterwards, in the ordinary single-threaded way
later = iter(range(32601, 32661))

n_unpinned = 0
bad = []
for wkt in wkts:
    a, b = race(wkt)
    assert a == b
    pinned = _crs_cache[wkt][0]
    losers = [c for c in (a, b) if c.proj is not pinned]
    if not losers:
        continue  # (does not happen: both threads built their own object)
    n_unpinned += 1
    (loser,) = losers
    # use the un-pinned one: the answer is correct at this point
    got = loser.transformer_to_crs(DST)(*PROBE)
    assert got == expected(loser)
    stale_id, stale_name = id(loser.proj), wkts[wkt]
    # ... and drop it
    del a, b, loser, losers, pinned
    gc.collect()

    # ordinary later use of the library: build other CRSs, ask for transformers
    for _ in range(2):
        c = CRS(next(later))
        got = c.transformer_to_crs(DST)(*PROBE)
        want = expected(c)
        if got != want:
            bad.append((c, got, want, stale_name if id(c.proj) == stale_id else "?"))

print(f"{n_unpinned} CRS objects were handed out without being pinned by _crs_cache")
for c, got, want, dead in bad[:5]:
    print(f"{c} ({c.proj.name}) -> EPSG:4326 of {PROBE}")
    print(f"   expected (fresh pyproj transformer): {want}")
    print(f"   observed (CRS.transformer_to_crs)  : {got}")
    print(f"   that is the transformer of the dropped CRS {dead!r}")

assert not bad, (
    f"{len(bad)} transformer(s) returned by CRS.transformer_to_crs convert from a "
    "different (dead) source CRS"
)
print("OK: all transformers agree with pyproj")
