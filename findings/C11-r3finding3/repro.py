"""
C11: "'utm' / 'utm-n' / 'utm-s' requests resolve to a UTM CRS whose valid area overlaps the raster,
in the requested hemisphere".

A raster that straddles the 180deg meridian (Fiji in its national grid EPSG:3460 - the CRS valid area
itself spans 176.81E .. 178.15W - or a UTM zone 60 / zone 1 tile touching the antimeridian) is resolved
to a UTM zone several zones away whose valid area does not touch the raster at all.
"""
import sys
import warnings

import numpy as np

warnings.filterwarnings("ignore")

from odc.geo import geom
from odc.geo.crs import CRS
from odc.geo.geobox import GeoBox
from odc.geo.overlap import compute_output_geobox


def pixel_lons_lats(gbox, n=25):
    ny, nx = gbox.shape
    X, Y = np.meshgrid(np.linspace(0, nx, n), np.linspace(0, ny, n))
    wx, wy = gbox.transform * (X.ravel(), Y.ravel())
    lon, lat = gbox.crs.transformer_to_crs(CRS("epsg:4326"))(wx, wy)
    return np.asarray(lon), np.asarray(lat)


def overlaps_valid_area(gbox, crs, check_lat=True):
    """does any source pixel fall inside the lon/lat area of use of ``crs``
    (for a forced hemisphere only the 6 degree longitude band is compared)"""
    aou = crs.proj.area_of_use
    lon, lat = pixel_lons_lats(gbox)
    inside = (lon >= aou.west) & (lon <= aou.east)
    if check_lat:
        inside = inside & (lat >= aou.south) & (lat <= aou.north)
    return bool(inside.any()), (float(aou.west), float(aou.south), float(aou.east), float(aou.north))


fiji = CRS("epsg:3460")
x, y = geom.point(179.9, -17.0, "epsg:4326").to_crs(fiji).coords[0]
sources = {
    # 60 km x 40 km, 100 m pixels, around 179.7E .. 179.7W / 17S: inside the EPSG:3460 area of use
    "Fiji map grid tile across 180": GeoBox.from_bbox((x - 20_000, y - 20_000, x + 40_000, y + 20_000), fiji, resolution=100),
    # UTM 60S tile whose eastern part reaches over 180 (like Sentinel-2 tiles 60KXx / 01Kxx overlap)
    "UTM 60S tile reaching over 180": GeoBox.from_bbox((780_000, 8_000_000, 840_000, 8_060_000), "epsg:32760", resolution=100),
}

bad = []
for name, src in sources.items():
    lon, lat = pixel_lons_lats(src)
    east_part = lon[lon > 0]
    west_part = lon[lon < 0]
    print(f"{name}: source pixels at lon {east_part.min():.2f}E..180 and 180..{-west_part.max():.2f}W, lat {lat.min():.2f}..{lat.max():.2f}")
    for req in ("utm", "utm-s", "utm-n"):
        dst = compute_output_geobox(src, req)
        ok, aou = overlaps_valid_area(src, dst.crs, check_lat=(req == 'utm'))
        print(f"   {req:5s} -> {dst.crs} zone {dst.crs.proj.utm_zone}, valid lon/lat area {aou}; overlaps raster: {ok}")
        if not ok:
            bad.append((name, req, str(dst.crs)))

if bad:
    print("EXPECTED: UTM zone 60 or 1 (the zones the raster actually lies in)")
    print("OBSERVED: a zone whose valid area does not overlap the raster:")
    for b in bad:
        print("    ", b)
    sys.exit(1)
print("OK")
