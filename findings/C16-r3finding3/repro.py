"""
C16 finding 3: GeoBoxes with DIFFERENT pixel size are accepted by | & overlap_roi
and snap_to instead of being rejected, and the answer is wrong by several pixels.

Expected: ValueError (property: "union, intersection and overlap of GeoBoxes whose
          grids are not related by a whole-pixel shift (different pixel size, ...)
          are rejected with an error rather than silently resampled"), or at the
          very least a union that contains both operands.
Observed: no error; the "union" is 5 pixels (50 m) short of operand B, and
          B.overlap_roi(A | B) claims B is fully inside.
"""
import warnings

warnings.simplefilter("ignore")

from affine import Affine

from odc.geo.geobox import GeoBox

crs = "epsg:32633"
A = GeoBox((10, 1_000_000), Affine(10.0, 0, 300000, 0, -10.0, 5000000), crs)
B = GeoBox((10, 1_000_000), Affine(10.00005, 0, 300000, 0, -10.0, 5000000), crs)
print("pixel size A:", A.resolution.x, " pixel size B:", B.resolution.x)

accepted = []
for name, op in (
    ("A | B", lambda: A | B),
    ("A & B", lambda: A & B),
    ("A.overlap_roi(B)", lambda: A.overlap_roi(B)),
    ("B.snap_to(A)", lambda: B.snap_to(A)),
):
    try:
        r = op()
        accepted.append(name)
        print(f"observed: {name} accepted ->", getattr(r, "shape", r))
    except ValueError as e:
        print(f"observed: {name} rejected: {e}")

if "A | B" in accepted:
    U = A | B
    ub, bb = U.extent.boundingbox, B.extent.boundingbox
    print("union right edge:", ub.right, " operand B right edge:", bb.right,
          f" -> B sticks out by {(bb.right - ub.right) / A.resolution.x:.1f} pixels")

print("expected: all four operations raise ValueError (different pixel size)")
assert not accepted, f"grids with different pixel size silently accepted by: {accepted}"
