"""
C12: tile queries / dependency graph on a GCP-georeferenced raster (GCPGeoBox) miss tiles.

GeoboxTiles.tiles(query) narrows the candidate tiles with range_from_bbox(), which
maps only the 4 corners of the query's *bounding box* through the non-linear
(bi-quadratic) world->pixel polynomial of the GCPGeoBox (GeoBoxBase.project densifies
only when the CRS differs; here the non-linearity is in wld2pix itself, same CRS).
 - A world-aligned rectangle is a curved quadrilateral in pixel space, so the
   corner-only pixel bounding box is too small (part 3).
 - The candidate range comes from the w2p polynomial while the tile footprints
   (tile.extent, used by the final filter and being "the footprint" of the statement)
   come from the independently fitted p2w polynomial; on the repository's own sample
   the two disagree by up to 5 px, and no margin is added (parts 1, 2).
Tiles whose footprint solidly intersects the query are therefore never looked at.
grid_intersect() goes through the same routine (src.tiles(dst_tile.extent)) and drops
dependency edges -> holes in chunked reprojection of GCP sources.

Part 1/2 use the GCP sample shipped with the repository: tests/data/au-gcp.tif
"""
import sys
import warnings
from pathlib import Path

warnings.filterwarnings("ignore")

import rasterio
from affine import Affine

import odc.geo
from odc.geo import geom
from odc.geo.gcp import GCPGeoBox
from odc.geo.geobox import GeoBox, GeoboxTiles

tif = Path(odc.geo.__file__).parents[2] / "tests" / "data" / "au-gcp.tif"
assert tif.exists(), tif
with rasterio.open(tif) as f:
    gbox = GCPGeoBox.from_rio(f)

print("raster:", gbox, "shape", gbox.shape)
gbt = GeoboxTiles(gbox, (16, 16))
all_tiles = list(gbt._all_tiles())

failed = False

# ---------------------------------------------------------------- part 1: tiles(query)
# plain lon/lat rectangle in the CRS of the raster itself (EPSG:4326)
query = geom.box(133.5, -23.75, 143.9, -20.1, "EPSG:4326")
got = set(gbt.tiles(query))

# oracle: brute force over ALL tiles with the very predicate the statement uses
# (tile footprint intersects query), requiring a solid overlap so that this is not
# about slivers: >= 5% of the tile footprint lies inside the query
expected = {}
for idx in all_tiles:
    ext = gbt[idx].extent
    frac = (ext & query).area / ext.area
    if frac >= 0.05:
        expected[idx] = frac

missing = {idx: round(f, 3) for idx, f in expected.items() if idx not in got}
print("\n[tiles] query:", query.boundingbox.bbox)
print("[tiles] expected (>=5% of tile footprint inside query):", sorted(expected))
print("[tiles] observed from GeoboxTiles.tiles():            ", sorted(got))
print("[tiles] MISSING tiles {idx: fraction of tile inside query}:", missing)
if missing:
    failed = True

# ---------------------------------------------------------------- part 2: grid_intersect
# destination: ordinary north-up lon/lat grid over the same area (same CRS as the GCP raster)
dst = GeoBox((144, 192), Affine(0.25, 0, 110, 0, -0.25, -9), "EPSG:4326")
dgbt = GeoboxTiles(dst, (16, 16))
deps = dgbt.grid_intersect(gbt)

src_ext = {idx: gbt[idx].extent for idx in all_tiles}
n_bad = 0
worst = (0.0, None, None)
for didx in dgbt._all_tiles():
    dext = dgbt[didx].extent
    listed = set(deps.get(didx, []))
    for sidx, sext in src_ext.items():
        if sidx in listed:
            continue
        frac = (dext & sext).area / dext.area  # part of the destination tile fed by this source tile
        if frac >= 0.03:
            n_bad += 1
            if frac > worst[0]:
                worst = (frac, didx, sidx)

print("\n[grid_intersect] destination tiles:", dgbt.shape.yx, " source tiles:", gbt.shape.yx)
print("[grid_intersect] expected: every source tile covering >=3% of a destination tile is listed")
print(f"[grid_intersect] observed: {n_bad} (dst, src) edges missing; worst: dst tile {worst[1]} "
      f"lacks src tile {worst[2]} which covers {worst[0]:.1%} of it "
      f"(listed: {sorted(deps.get(worst[1], [])) if worst[1] else None})")
if n_bad:
    failed = True

# ---------------------------------------------------------------- part 3: curved edges (synthetic, dense GCP lattice)
# Continental Albers (EPSG:3577) pixel grid described by an 11x11 lattice of GCPs given in lon/lat,
# i.e. the same kind of raster as au-gcp.tif but larger and with interior GCPs.
import numpy as np
from pyproj import Transformer
from odc.geo.gcp import GCPMapping

ny, nx = 1240, 1330
A = Affine(3000, 0, -2.0e6, 0, -3000, -1.0e6)
tr = Transformer.from_crs("EPSG:3577", "EPSG:4326", always_xy=True)
gx, gy = np.meshgrid(np.linspace(0, nx, 11), np.linspace(0, ny, 11))
pix = np.stack([gx.ravel(), gy.ravel()], axis=1)
lon, lat = tr.transform(A.a * pix[:, 0] + A.c, A.e * pix[:, 1] + A.f)
gbox3 = GCPGeoBox((ny, nx), GCPMapping(pix, np.stack([lon, lat], axis=1), "EPSG:4326"))
gbt3 = GeoboxTiles(gbox3, (64, 64))
query3 = geom.box(118, -32.75, 152, -29.75, "EPSG:4326")
got3 = set(gbt3.tiles(query3))
missing3 = {}
for idx in gbt3._all_tiles():
    if idx in got3:
        continue
    ext = gbt3[idx].extent
    frac = (ext & query3).area / ext.area
    if frac >= 0.05:
        missing3[idx] = round(frac, 3)
print("\n[curved] pixel bbox of the query from its 4 corners  :", gbox3.project(query3).boundingbox.bbox)
print("[curved] pixel bbox of the query with densified edges:", gbox3.project(query3.segmented(0.1)).boundingbox.bbox)
print("[curved] expected: no tile with >=5% of its footprint inside the query is left out")
print("[curved] observed: MISSING {idx: fraction of tile inside query}:", missing3)
if missing3:
    failed = True

assert not failed, "GCPGeoBox tile query / dependency graph is incomplete"
print("OK")
