"""
C13 finding 3: polar stereographic source that contains the pole.

In memory the reprojection to EPSG:4326 works.  With a dask source the graph
construction crashes (shapely GEOSException / TopologyException) while
intersecting the EPSG:4326 footprints of source and destination.
"""
import warnings

import numpy as np

from odc.geo.geobox import GeoBox
from odc.geo.xr import wrap_xr

warnings.simplefilter("ignore")

src_gbox = GeoBox.from_bbox((-3e6, -3e6, 3e6, 3e6), "epsg:3031", resolution=50_000)
dst_gbox = GeoBox.from_bbox((100, -80, 160, -60), "epsg:4326", resolution=0.5)

data = np.random.default_rng(0).integers(1, 200, size=src_gbox.shape.yx).astype("int16")
xx = wrap_xr(data, src_gbox)

ref = xx.odc.reproject(dst_gbox, resampling="nearest").values
print("in-memory result:", ref.shape, "data pixels:", int((ref != 0).sum()), "of", ref.size)

print("expected: dask-backed reprojection returns an array with the same fill/data layout")
try:
    lazy = xx.chunk({"y": 30, "x": 30}).odc.reproject(dst_gbox, resampling="nearest", chunks=(10, 60))
    got = lazy.compute(scheduler="synchronous").values
except Exception as e:  # pylint: disable=broad-except
    print(f"observed: {type(e).__name__}: {str(e)[:160]}")
    raise

lost = int(((ref != 0) & (got == 0)).sum())
print(f"observed: {lost} destination pixels with data in memory hold fill in the chunked result")
assert lost <= 5
