"""
C07 - densification does its running-distance arithmetic in whatever object/dtype the
caller passed as ``resolution``.

The resolution very often comes out of numpy / xarray (pixel size of a raster:
``(ds.x[1] - ds.x[0]).values`` is a 0-d ndarray, float32 coordinates give numpy.float32,
integer pixel sizes give numpy.intNN).  All of these are finite positive numbers, so
after ``segmented(res)`` / ``to_crs(crs, resolution=res)`` no edge may be longer than res.
"""
import signal
import sys

import numpy as np

from odc.geo.geom import line

problems = []


def max_edge(g):
    xy = np.asarray(g.coords)
    return float(np.hypot(*np.diff(xy, axis=0).T).max())


# --- 1. 0-d float64 array (what ``DataArray.values`` gives for a scalar) -----------------
g = line([(0, 0), (1000, 0), (1000, 1000)], "EPSG:3857")
expect = g.segmented(30.0)
res = np.asarray(30.0)
out = g.segmented(res)
print("0-d array resolution=30 : expected max edge <= 30 and", len(expect.coords), "vertices")
print("                          observed max edge", max_edge(out), "and", len(out.coords), "vertices:", out.coords[:7], "...")
print("                          caller's resolution array is now", res, "(expected 30.0)")
if max_edge(out) > 30 * (1 + 1e-9) or float(res) != 30.0:
    problems.append("0-d array")

out = g.to_crs("EPSG:4326", resolution=np.asarray(30.0))
print("  same through to_crs   : expected", len(expect.coords), "vertices, observed", len(out.coords))
if len(out.coords) != len(expect.coords):
    problems.append("0-d array via to_crs")

# --- 2. numpy.float32 (pixel size taken from float32 coordinates) ------------------------
g = line([(0, 0), (10_000, 0)], "EPSG:3857")
res = np.float32(0.1)
out = g.segmented(res)
print(f"float32 resolution={float(res)!r}: expected max edge <= {float(res)!r}, observed {max_edge(out)!r}",
      f"({(max_edge(out) / float(res) - 1) * 100:.3f}% too long)")
if max_edge(out) > float(res) * (1 + 1e-6):
    problems.append("float32")

# --- 3. small numpy integer (pixel size of an int16 / uint16 raster attribute) -----------
g = line([(0, 0), (100_000, 0)], "EPSG:3857")


def on_alarm(*_):
    raise TimeoutError


signal.signal(signal.SIGALRM, on_alarm)
for res in [np.int16(10_000), np.uint16(30)]:
    n_expect = len(g.segmented(int(res)).coords)
    signal.alarm(10)
    try:
        out = g.segmented(res)
        signal.alarm(0)
        print(f"{type(res).__name__} resolution={int(res)}: expected {n_expect} vertices, observed {len(out.coords)}")
        if len(out.coords) != n_expect:
            problems.append(type(res).__name__)
    except TimeoutError:
        print(f"{type(res).__name__} resolution={int(res)}: expected {n_expect} vertices, observed no result after 10 s (endless loop, d wraps around)")
        problems.append(type(res).__name__ + " endless loop")

if problems:
    print("FAIL:", problems)
    sys.exit(1)
print("OK")
