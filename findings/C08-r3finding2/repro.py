"""
C08 finding 2: shape-driven construction with a single integer shape and snapping left on
(the default) does not give the requested number of pixels.

docs of GeoBox.from_bbox: "shape: Span that many pixels, if it's a single number then span that
many pixels along the longest dimension".
"""
import sys
import warnings

warnings.filterwarnings("ignore")

from odc.geo import geom
from odc.geo.geobox import GeoBox

bbox = (0.3, 0.2, 10.3, 5.2)  # 10 x 5 units
N = 10
bad = []
for kw in [dict(), dict(anchor="center"), dict(anchor=0.25), dict(tight=True)]:
    gbox = GeoBox.from_bbox(bbox, "epsg:3857", shape=N, **kw)
    poly = GeoBox.from_geopolygon(geom.box(*bbox, "epsg:3857"), shape=N, **kw)
    assert poly == gbox
    longest = max(gbox.shape)
    print(f"from_bbox({bbox}, shape={N}, {kw}): expected longest side == {N} pixels,"
          f" observed shape={gbox.shape.shape} res={gbox.resolution.xy}")
    # pixel size is span/N as promised ...
    assert abs(gbox.resolution.x - (bbox[2] - bbox[0]) / N) < 1e-12
    # ... but the shape is not the requested one
    if longest != N:
        bad.append((kw, gbox.shape.shape))

# same request with an explicit (ny, nx) shape keeps the shape, only int form is broken
assert GeoBox.from_bbox(bbox, "epsg:3857", shape=(5, 10)).shape == (5, 10)

if bad:
    print("FAIL: requested", N, "pixels along the longest side, got", bad)
    sys.exit(1)
print("OK")
