"""
roi_from_points(..., align=0): 0 is accepted as "no alignment" by the public
caller (compute_reproject_roi: ``tight_ok = align in (None, 0) ...`` and passes
``align`` straight through), but roi_from_points only special-cases ``None``.

With align=0:  align_down(x, 0) = x - (x % 0) = x      (numpy: x % 0 == 0 + RuntimeWarning)
               align_up(x, 0)   = align_down(x - 1, 0) = x - 1
so the stop edge of the envelope shrinks by one pixel and the pixel holding the
max point is dropped.
"""
import sys
import warnings

import numpy as np

from odc.geo.roi import roi_from_points

warnings.simplefilter("ignore")  # a RuntimeWarning (divide by zero) is all the user gets

pts = np.array([[1.5, 1.5], [7.2, 3.3], [4.0, 2.0]])
shape = (10, 10)

ref = roi_from_points(pts, shape)  # align=None
got = roi_from_points(pts, shape, align=0)
print("align=None :", ref)
print("align=0    :", got)


def contains(roi, pts):
    ry, rx = roi
    return all(rx.start <= x <= rx.stop and ry.start <= y <= ry.stop for x, y in pts)


print("expected: align=0 behaves like 'no alignment' (or raises) and the region contains every in-image point")
print("observed: contains all points ->", contains(got, pts))

# end-to-end illustration through the public API
try:
    from odc.geo.geobox import GeoBox
    from odc.geo.overlap import compute_reproject_roi

    src = GeoBox.from_bbox((140, -36, 141, -35), "epsg:4326", shape=(200, 200))
    dst = GeoBox.from_bbox((140.2, -35.8, 140.8, -35.2), "epsg:4326", shape=(100, 100)).to_crs("epsg:3857")
    r_none = compute_reproject_roi(src, dst, padding=0, align=None).roi_src
    r_zero = compute_reproject_roi(src, dst, padding=0, align=0).roi_src
    print("compute_reproject_roi roi_src align=None:", r_none)
    print("compute_reproject_roi roi_src align=0   :", r_zero)
except Exception as e:  # pragma: no cover
    print("end-to-end illustration skipped:", repr(e))

assert contains(got, pts), f"align=0 dropped the pixel of the max point: {got} vs {ref}"
assert got == ref
