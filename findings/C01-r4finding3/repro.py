"""
C01 - the wrapped shapely predicates / set operations of Geometry can not be
called with their (declared) keyword argument ``other=``: the wrap_shapely
decorator only takes ``*args``. shapely itself accepts ``a.union(other=b)``.

Expected (property C01): for operands in the same CRS the operation returns
exactly what shapely returns on the raw shapes, tagged with the operands' CRS;
for operands in different CRSs it raises a CRS mismatch (ValueError).
Observed: TypeError in both cases - neither the result nor the CRS check.
"""
import sys
import warnings

warnings.filterwarnings("ignore")

from shapely import geometry as sg

from odc.geo.geom import Geometry

A = sg.box(0, 0, 2, 2)
B = sg.box(1, 1, 3, 3)
a = Geometry(A, "EPSG:4326")
b = Geometry(B, "EPSG:4326")
c = Geometry(B, "EPSG:3857")

names = [
    "contains", "covers", "crosses", "disjoint", "intersects", "touches", "within", "overlaps",
    "difference", "intersection", "symmetric_difference", "union",
]  # fmt: skip
bad = []
for name in names:
    expect = getattr(A, name)(other=B)  # shapely is fine with the keyword
    try:
        got = getattr(a, name)(other=b)
        got = got.geom if isinstance(got, Geometry) else got
        ok = got == expect
        print(f"{'OK ' if ok else 'BAD'}  a.{name}(other=b): expected {expect!r:.50} got {got!r:.50}")
        if not ok:
            bad.append(name)
    except Exception as e:  # pylint: disable=broad-except
        print(f"BAD  a.{name}(other=b): expected {expect!r:.50} got {type(e).__name__}: {e}")
        bad.append(name)

    try:
        getattr(a, name)(other=c)
        print(f"BAD  a.{name}(other=<EPSG:3857>): no error")
        bad.append(name + "/mismatch")
    except ValueError:
        pass  # CRSMismatchError, what the property demands
    except Exception as e:  # pylint: disable=broad-except
        print(f"BAD  a.{name}(other=<EPSG:3857>): expected CRSMismatchError (ValueError) got {type(e).__name__}")
        bad.append(name + "/mismatch")

if bad:
    print(f"\nEXPECTED: shapely's result / CRSMismatchError; OBSERVED: {len(bad)} failures")
    sys.exit(1)
print("all good")
