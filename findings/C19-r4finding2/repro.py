"""
C19: objects that compare unequal must never share a dask token.

VariableSizedTiles.__dask_tokenize__ returns its two int64 offset arrays as raw
numpy arrays.  dask hashes str() of what __dask_tokenize__ returned (it does not
normalise it any further), and str() of an ndarray with more than 1000 elements
is "[a b c ... x y z]".  Two irregular tilings with more than 1000 tiles along
an axis that differ only in the middle therefore share a token although
__eq__ / .chunks / every tile lookup in the middle tell them apart.
GeoboxTiles over irregular chunks inherits the token.
"""
from affine import Affine
from dask.base import tokenize

from odc.geo.geobox import GeoBox, GeoboxTiles
from odc.geo.roi import VariableSizedTiles

# 1100 chunk rows (think: a 70k-row mosaic in 64-row chunks, one stripe irregular), 2 chunk columns
rows_a = (64,) * 500 + (32, 96) + (64,) * 598
rows_b = (64,) * 500 + (96, 32) + (64,) * 598
cols = (512, 512)
assert sum(rows_a) == sum(rows_b) and len(rows_a) == len(rows_b) == 1100

failures = []


def check(label, a, b, probe):
    eq = a == b
    ta, tb = tokenize(a), tokenize(b)
    print(f"{label}: a == b -> {eq}; tile {probe}: a -> {a[probe]}, b -> {b[probe]}")
    print(f"    token(a) = {ta}\n    token(b) = {tb}")
    if not eq and ta == tb:
        failures.append(label)
        print("    VIOLATION: expected different tokens for unequal objects, observed the same token")


t_a = VariableSizedTiles((rows_a, cols))
t_b = VariableSizedTiles((rows_b, cols))
check("VariableSizedTiles", t_a, t_b, (500, 0))

# a much coarser difference: everything between the first and last three rows is different
rows_c = (64, 64, 64) + (1,) * 1093 + (sum(rows_a) - 6 * 64 - 1093,) + (64, 64, 64)
assert sum(rows_c) == sum(rows_a) and len(rows_c) == 1100
check("VariableSizedTiles (all 1094 middle rows differ)", t_a, VariableSizedTiles((rows_c, cols)), (600, 1))

gbox = GeoBox((sum(rows_a), sum(cols)), Affine(10, 0, 500_000, 0, -10, 6_100_000), "EPSG:32633")
check("GeoboxTiles over the same chunks", GeoboxTiles(gbox, (rows_a, cols)), GeoboxTiles(gbox, (rows_b, cols)), (500, 0))

assert not failures, f"unequal objects share a dask token: {failures}"
print("OK")
