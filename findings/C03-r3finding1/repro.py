"""
C03 finding 1: the sampled-boundary plan under-covers the source when the
destination edge is curved in source pixel space.

compute_reproject_roi() projects only 5 points per destination side into the
source and pads the envelope of those 16 points by 1 pixel.  When the extreme
of a curved edge falls between two samples the envelope is too small by much
more than the 1 px padding.

dst: continental Australian Albers grid (EPSG:3577), 4000x4000 @ 1 km.  The
     central meridian (x=0) is 1500 px from the left edge, i.e. half way between
     boundary samples #1 (x=-500 km) and #2 (x=+500 km).
src: plain lon/lat raster (EPSG:4326) @ 0.01 deg that comfortably contains dst.

Both are inside the area of use of EPSG:3577 (93.4E..173.3E, 60.6S..8.5S).
"""
import warnings

import numpy as np
from affine import Affine

from odc.geo import xy_
from odc.geo.geobox import GeoBox
from odc.geo.overlap import compute_reproject_roi

warnings.simplefilter("ignore")

dst = GeoBox((4000, 4000), Affine(1000, 0, -1_500_000, 0, -1000, -1_000_000), "EPSG:3577")
src = GeoBox((5500, 8000), Affine(0.01, 0, 95, 0, -0.01, -5), "EPSG:4326")

rr = compute_reproject_roi(src, dst)
print("roi_src:", rr.roi_src)
print("roi_dst:", rr.roi_dst)

# centres of every pixel of the bottom destination row
row = dst.shape.y - 1
pts = rr.transform.back([xy_(x + 0.5, row + 0.5) for x in range(dst.shape.x)])
px = np.array([p.x for p in pts])
py = np.array([p.y for p in pts])

inside_src = (px > 0) & (px < src.shape.x) & (py > 0) & (py < src.shape.y)
ry, rx = rr.roi_src
inside_roi = (px >= rx.start) & (px <= rx.stop) & (py >= ry.start) & (py <= ry.stop)
in_roi_dst = rr.roi_dst[0].start <= row < rr.roi_dst[0].stop

missing = inside_src & ~inside_roi
worst = float((py - ry.stop)[missing].max()) if missing.any() else 0.0
i = int(np.argmax(np.where(missing, py - ry.stop, -1)))

print(f"expected: all {int(inside_src.sum())} pixel centres of dst row {row} that map inside the "
      f"source image map inside roi_src (rows {ry.start}:{ry.stop})")
print(f"observed: {int(missing.sum())} of them map outside roi_src, worst is dst pixel "
      f"(row={row}, col={i}) -> src (row={py[i]:.2f}, col={px[i]:.2f}), "
      f"{worst:.2f} source rows past roi_src.stop={ry.stop} (padding is 1)")

assert in_roi_dst
assert not missing.any(), "source region drops rows that destination pixels map to"
