"""
C12 / finding 1: GeoboxTiles.tiles(query in another CRS) projects only the VERTICES of the
query (Geometry.to_crs is called without `resolution`, i.e. no densification), so the curved
image of the query's edges is replaced by straight chords.  Tiles that intersect the query only
between chord and true curve are not returned, and grid_intersect (different-CRS path, which calls
src.tiles(dst_tile.extent) with a 4-vertex extent) silently drops dependency edges.

Ground truth here does not use odc-geo geometry code: points strictly inside the query / centres
of destination pixels are mapped with pyproj into the source pixel grid; the source tile that
contains such a point obviously intersects the query / overlaps the destination tile.
"""
import sys
import warnings

warnings.filterwarnings("ignore")

import numpy as np
from pyproj import Transformer

from odc.geo import geom
from odc.geo.geobox import GeoBox, GeoboxTiles

src = GeoBox.from_bbox(
    (2_500_000, 1_500_000, 6_500_000, 5_500_000), "EPSG:3035", resolution=1000
)  # LAEA Europe, 1km pixels
ts = GeoboxTiles(src, (100, 100))  # 100km tiles
tr = Transformer.from_crs("EPSG:4326", "EPSG:3035", always_xy=True)


def src_tile_of(lon, lat):
    """source tile index containing lon/lat points (None when outside the raster)"""
    x, y = tr.transform(lon, lat)
    px, py = ~src.transform * (np.asarray(x), np.asarray(y))
    out = []
    for ix, iy in zip(np.floor(px).astype(int).ravel(), np.floor(py).astype(int).ravel()):
        if 0 <= ix < src.shape.x and 0 <= iy < src.shape.y:
            out.append(ts.roi.locate((int(iy), int(ix))))
        else:
            out.append(None)
    return out


failed = False

# ---- part 1: direct geometry query -------------------------------------------------
query = geom.box(0, 60, 40, 70, "EPSG:4326")
got = set(ts.tiles(query))
lon, lat = np.meshgrid(np.linspace(0.05, 39.95, 400), np.linspace(60.02, 69.98, 200))
need = {t for t in src_tile_of(lon, lat) if t is not None}
missing = sorted(need - got)
print("tiles(box(0,60,40,70, EPSG:4326)) on an EPSG:3035 raster with 100km tiles")
print("  expected: every tile containing a point strictly inside the query:", len(need), "tiles")
print("  observed:", len(got), "tiles returned; tiles containing interior points of the query but NOT returned:", missing)
if missing:
    failed = True

# ---- part 2: dependency graph ------------------------------------------------------
dst = GeoBox.from_bbox((-10, 35, 40, 70), "EPSG:4326", resolution=0.05)
td = GeoboxTiles(dst, (350, 500))  # 17.5 x 25 degree tiles (350 x 500 px)
deps = td.grid_intersect(ts)
holes = {}
npix = 0
for didx in np.ndindex(td.shape.shape):
    gb = td[didx]
    # centres of all destination pixels of this tile
    yy, xx = np.meshgrid(
        np.arange(0, gb.shape.y, 1) + 0.5, np.arange(0, gb.shape.x, 1) + 0.5, indexing="ij"
    )
    wx, wy = gb.transform * (xx, yy)
    listed = set(deps.get(didx, []))
    for t in src_tile_of(wx, wy):
        if t is not None and t not in listed:
            holes.setdefault((didx, t), 0)
            holes[(didx, t)] += 1
            npix += 1
print("grid_intersect(dst=EPSG:4326 0.05deg pixels, 350x500px tiles, src=EPSG:3035 100km tiles)")
print("  expected: for every destination pixel centre that falls inside the source raster, the")
print("            source tile containing it is listed for that destination tile (no holes)")
print(f"  observed: {len(holes)} missing (dst tile -> src tile) edges, {npix} destination pixels whose source tile is not listed:")
for (d, s), n in sorted(holes.items()):
    print(f"     dst {d} lacks src {s}: {n} destination pixels")
if holes:
    failed = True

assert not failed, "C12 violated: tile query / dependency graph is incomplete for queries in a different CRS"
print("OK")
