"""
C11: output geobox computed for another CRS must contain the projected position of
every source pixel (up to tol=1% of an output pixel).

compute_output_geobox samples the source outline with a FIXED 100 points per side
(GeoBox.footprint(..., npoints=100)) and relies on a 0.9 source-pixel buffer to absorb
the curvature between samples.  The buffer is fixed in pixels, the sample spacing grows
with the pixel count, so for continental rasters at 10-30 m (>~100k pixels per side)
the chord error between two samples exceeds the buffer and whole columns/rows of source
pixels fall outside of the returned geobox.

Oracle: pyproj point transform of the *centres* of all border pixels of the source.
"""
import sys
import warnings

import numpy as np
from affine import Affine
from pyproj import Transformer

warnings.filterwarnings("ignore")

from odc.geo.geobox import GeoBox
from odc.geo.overlap import compute_output_geobox

SINU = "+proj=sinu +lon_0=0 +x_0=0 +y_0=0 +datum=WGS84 +units=m +no_defs"

CASES = [
    # ~27 m lon/lat mosaic of South America (192000 x 276000 px) -> sinusoidal (MODIS-like)
    ("EPSG:4326", Affine(0.00025, 0, -82.0, 0, -0.00025, 13.445), (276000, 192000), SINU),
    # 10 m CONUS Albers grid (NLCD/CDL extent, 462000 x 291000 px) -> lon/lat
    ("EPSG:5070", Affine(10, 0, -2376900.0, 0, -10, 3215400.0), (291000, 462000), "EPSG:4326"),
]


def border_pixel_centres(shape):
    ny, nx = shape
    xs = np.arange(nx) + 0.5
    ys = np.arange(ny) + 0.5
    px = np.concatenate([xs, xs, np.full(ny, 0.5), np.full(ny, nx - 0.5)])
    py = np.concatenate([np.full(nx, 0.5), np.full(nx, ny - 0.5), ys, ys])
    return px, py


def outside_by(src: GeoBox, out: GeoBox) -> float:
    """Largest distance (in OUTPUT pixels) by which a source pixel centre is outside of out."""
    px, py = border_pixel_centres(src.shape)
    A = src.transform
    wx, wy = A.a * px + A.b * py + A.c, A.d * px + A.e * py + A.f
    tr = Transformer.from_crs(src.crs.proj, out.crs.proj, always_xy=True)
    X, Y = tr.transform(wx, wy)
    assert np.isfinite(X).all() and np.isfinite(Y).all()
    B = out.transform
    assert B.b == 0 and B.d == 0
    qx, qy = (X - B.c) / B.a, (Y - B.f) / B.e  # output pixel coordinates
    H, W = out.shape
    return float(max(-qx.min(), qx.max() - W, -qy.min(), qy.max() - H))


failed = 0
for crs, A, shape, dst in CASES:
    src = GeoBox(shape, A, crs)
    out = compute_output_geobox(src, dst)  # all defaults, tol=0.01
    miss = outside_by(src, out)
    print(f"source  : {crs} shape={shape} res={A.a}")
    print(f"dst     : {dst}")
    print(f"output  : shape={tuple(out.shape)} res={out.resolution.x:.8g}")
    print("expected: every source pixel centre inside the output geobox (<= 0.01 output px outside)")
    print(f"observed: some source pixel centres are {miss:.3f} output pixels OUTSIDE of it")
    print()
    if miss > 0.01:
        failed += 1

if failed:
    print(f"FAIL: {failed}/{len(CASES)} output geoboxes do not enclose the source pixels")
    sys.exit(1)
print("ok")
