"""
C10 finding 1: paste != nearest warp when a GeoBox affine is (almost) Affine(1,0,0,0,-1,0)

A perfectly ordinary north-up grid with 1-unit pixels whose top-left corner sits at the
CRS origin, e.g. GeoBox.from_bbox((0, -13, 33, 0), resolution=1), has the affine
(1, 0, 0, 0, -1, 0).  Planning says "paste" (same CRS, whole pixel shift), but
odc.geo.warp.rio_reproject(..., "nearest") returns a different image, because the installed
rasterio (1.5.1) special-cases transforms that are almost equal to identity or to the
"flipped identity" inside rasterio._warp._reproject.format_transform and replaces them by
Affine.translation(1e-100, 1e-100) -- dropping the -1, i.e. the raster is read upside-down
and displaced.  odc-geo hands the transform over unchanged.

The same pair of grids moved by a common world offset (identical relative placement)
behaves correctly, which shows planning is right and the warp wrapper is wrong.
"""
import sys

import numpy as np
import rasterio
from affine import Affine

from odc.geo.geobox import GeoBox
from odc.geo.overlap import compute_reproject_roi
from odc.geo.warp import rio_reproject

print("rasterio", rasterio.__version__, "gdal", rasterio.__gdal_version__)

NODATA = 0
rng = np.random.default_rng(0)


def paste(src_img, rr, dst_shape):
    out = np.full(dst_shape, NODATA, dtype=src_img.dtype)
    out[rr.roi_dst] = src_img[rr.roi_src]
    return out


def check(label, src, dst):
    rr = compute_reproject_roi(src, dst)
    assert rr.paste_ok and rr.read_shrink == 1, (label, rr)
    src_img = rng.integers(1, 30000, src.shape).astype("int16")
    expect = paste(src_img, rr, dst.shape)
    got = np.full(dst.shape, NODATA, dtype="int16")
    rio_reproject(src_img, got, src, dst, "nearest", src_nodata=NODATA, dst_nodata=NODATA)
    ndiff = int((expect != got).sum())
    print(
        f"{label}: src.affine={tuple(src.affine)[:6]} roi_src={rr.roi_src} roi_dst={rr.roi_dst}\n"
        f"    paste wrote {int((expect != NODATA).sum())} px, warp wrote {int((got != NODATA).sum())} px, differing px: {ndiff}"
    )
    return ndiff


src = GeoBox.from_bbox((0, -13, 33, 0), "epsg:3857", resolution=1)
assert tuple(src.affine)[:6] == (1, 0, 0, 0, -1, 0), src.affine
dst = src[2:9, 3:20]  # plain crop -> whole pixel shift, paste-able

bad = 0
bad += check("source at CRS origin, crop", src, dst)
bad += check("source at CRS origin, dst beside the source", src, src[2:9, 3:20] * Affine.translation(0, -15))
# destination affine being the special one is affected as well
big = GeoBox.from_bbox((-5, -20, 40, 6), "epsg:3857", resolution=1)
bad += check("destination at CRS origin", big, src)

# control: identical relative placement, everything moved by (+1000, +1000) world units
off = Affine.translation(1000, 1000)
ctl = check("control (shifted by 1000,1000)", GeoBox(src.shape, off * src.affine, src.crs), GeoBox(dst.shape, off * dst.affine, dst.crs))
assert ctl == 0, "control case should agree"

print()
print("EXPECTED: 0 differing pixels in every case (paste == nearest-neighbour warp)")
print(f"OBSERVED: {bad} differing pixels in the cases where a grid's affine is (1,0,0,0,-1,0)")
assert bad == 0, "paste shortcut and rio_reproject(nearest) disagree"
