"""
Slices whose bounds are numpy integer scalars of an unsigned or narrow type are
legal numpy slices (X[np.uint8(2):np.uint8(5)] works), but the ROI helpers do
their arithmetic in that scalar type.  With the installed numpy 2 (NEP 50: a
python int no longer widens a numpy scalar) `uint(2) - 3` wraps around and
`1000 + int8(-3)` raises, so the helpers return wrong regions or crash, while the
very same slices spelled with python ints give the right answer.
"""
import itertools
import warnings

import numpy as np

from odc.geo.roi import (
    roi_center,
    roi_is_empty,
    roi_is_full,
    roi_normalise,
    roi_pad,
    roi_shape,
)

print("numpy", np.__version__)
warnings.simplefilter("ignore", RuntimeWarning)  # numpy only *warns* about the wrap-around

X = np.arange(200)
assert list(X[np.uint8(2) : np.uint8(5)]) == [2, 3, 4]  # numpy is happy with such slices
assert list(X[np.int8(-3) :]) == [197, 198, 199]


def call(f, *args):
    try:
        return f(*args)
    except Exception as e:  # pylint: disable=broad-except
        return f"raised {type(e).__name__}: {e}"


def same(a, b):
    if isinstance(a, slice) and isinstance(b, slice):
        return (int(a.start), int(a.stop)) == (int(b.start), int(b.stop))
    return not isinstance(a, str) and a == b


bad = []
n = 200
for ty in (np.uint8, np.uint16, np.uint32, np.uint64, np.int8, np.int16, np.int32, np.int64):
    signed = np.issubdtype(ty, np.signedinteger)
    lo = -6 if signed else 0
    for a, b in itertools.product(range(lo, 7), range(lo, 7)):
        s_np, s_py = slice(ty(a), ty(b)), slice(a, b)
        checks = [
            (roi_pad, (3, n)),
            (roi_normalise, (n,)),
            (roi_is_full, (n,)),
        ]
        if a >= 0 and b >= 0:
            checks += [(roi_shape, ()), (roi_is_empty, ()), (roi_center, ())]
        for f, extra in checks:
            want = f(s_py, *extra)
            got = call(f, s_np, *extra)
            if not same(got, want):
                bad.append((f.__name__, ty.__name__, s_py, extra, want, got))
    # mid-range values that fit the type but whose sum does not
    if ty in (np.int8, np.uint8):
        want, got = roi_center(slice(100, 120)), call(roi_center, slice(ty(100), ty(120)))
        if got != want:
            bad.append(("roi_center", ty.__name__, slice(100, 120), (), want, got))

seen = set()
for name, ty, s, extra, want, got in bad:
    if (name, ty) in seen:
        continue
    seen.add((name, ty))
    print(f"{name}(s_[{ty}({s.start}):{ty}({s.stop})]{''.join(', ' + str(e) for e in extra)}): expected {want}, observed {got}")
print(f"{len(bad)} disagreements between numpy-typed and python-int spellings of the same slice")

p = roi_pad(slice(np.uint16(2), np.uint16(5)), 3, 10)
print("roi_pad(s_[uint16(2):uint16(5)], 3, 10) ->", p, " selects", list(np.arange(10)[p]), " expected [0..7]")
assert list(np.arange(10)[p]) == list(range(8)), "padded region lost: start wrapped around below zero"
assert not bad
