"""
C13: chunked reprojection leaves nodata holes INSIDE the image along destination-chunk seams
when up-sampling across CRSs (here 5km UTM -> 156.25m Web-Mercator, x32), the in-memory
reprojection of the same data with the same parameters has valid data there.

run:  PYTHONPATH=/tmp/seed/C13 /venv/bin/python repro.py
"""
import warnings

import numpy as np
import xarray as xr
from affine import Affine
from pyproj import Transformer

from odc.geo.geobox import GeoBox, GeoboxTiles
from odc.geo.xr import xr_coords

warnings.filterwarnings("ignore")

H, W = 10, 19
sg = GeoBox((H, W), Affine(5000.0, 0.0, 701709.5002666052, 0.0, -5000.0, 5745919.9771862365), "EPSG:32633")
dg = GeoBox((704, 1120), Affine(156.25, 0.0, 1985000.0, 0.0, -156.25, 6780000.0), "EPSG:3857")
SRC_CHUNKS = (1, 1)
DST_CHUNKS = (303, 1101)
NODATA = 0

# every source pixel is valid (1..190), 0 is nodata
data = (np.arange(H * W).reshape(H, W) + 1).astype("int32")
xx = xr.DataArray(data, dims=sg.dimensions, coords=xr_coords(sg), attrs={"nodata": NODATA})
sgx = xx.odc.geobox

ref = xx.odc.reproject(dg).values
got = (
    xx.chunk(dict(zip(sg.dimensions, SRC_CHUNKS)))
    .odc.reproject(dg, chunks=DST_CHUNKS)
    .compute(scheduler="synchronous")
    .values
)

# independent oracle: exact position of every destination pixel centre in source pixel coordinates
tr = Transformer.from_crs("EPSG:3857", "EPSG:32633", always_xy=True)
cc, rr = np.meshgrid(np.arange(dg.shape[1]) + 0.5, np.arange(dg.shape[0]) + 0.5)
wx, wy = dg.transform * (cc, rr)
px, py = tr.transform(wx, wy)
sx, sy = (~sgx.transform) * (np.asarray(px), np.asarray(py))
margin = np.minimum(np.minimum(sx, W - sx), np.minimum(sy, H - sy))  # >0: inside the source, in source pixels

deep_inside = margin > 0.3  # at least 0.3 source pixels (=1.5km, ~10 destination pixels) away from the source edge
holes_chunked = (got == NODATA) & deep_inside
holes_inmem = (ref == NODATA) & deep_inside

print(f"source      : {sg.shape} px of 5km, {sg.crs}, chunks {SRC_CHUNKS}")
print(f"destination : {dg.shape} px of 156.25m, {dg.crs}, chunks {DST_CHUNKS}")
print(f"pixels deep inside the source footprint (oracle: pyproj): {int(deep_inside.sum())}")
print(f"expected    : none of them is nodata (in-memory result has {int(holes_inmem.sum())} nodata pixels there)")
print(f"observed    : chunked result has {int(holes_chunked.sum())} nodata pixels there")
if holes_chunked.any():
    w = np.argwhere(holes_chunked)
    rows = sorted(set(w[:, 0].tolist()))
    print(f"  hole rows {rows} (destination chunk rows start at {list(range(0, dg.shape[0], DST_CHUNKS[0]))})")
    r, c = map(int, w[0])
    print(f"  e.g. dst pixel (row={r}, col={c}): exact source position x={sx[r, c]:.3f} y={sy[r, c]:.3f} "
          f"({margin[r, c]:.2f} px inside), in-memory value {ref[r, c]}, chunked value {got[r, c]}")
    # which source tiles did the dependency graph give to that destination chunk?
    gs = GeoboxTiles(sgx, SRC_CHUNKS)
    gd = GeoboxTiles(dg, DST_CHUNKS)
    deps = gd.grid_intersect(gs)
    didx = (r // DST_CHUNKS[0], c // DST_CHUNKS[1])
    v = int(ref[r, c]) - 1
    tile = (v // W // SRC_CHUNKS[0], v % W // SRC_CHUNKS[1])
    print(f"  in-memory GDAL read source pixel (row={v // W}, col={v % W}) = source tile {tile} for it; "
          f"that tile is {'in' if tile in deps[didx] else 'NOT in'} the dependency list of destination chunk {didx}")
    print("  (the exact position is just below the tile border y=4.0, GDAL's approximate transformer - rasterio tolerance=0.125 source px -")
    print("   puts it just above; the missing tile is assembled as nodata, so the chunk gets nodata)")
    got0 = (
        xx.chunk(dict(zip(sg.dimensions, SRC_CHUNKS)))
        .odc.reproject(dg, chunks=DST_CHUNKS, tolerance=0)
        .compute(scheduler="synchronous")
        .values
    )
    ref0 = xx.odc.reproject(dg, tolerance=0).values
    print(f"  control: with tolerance=0 (exact transformer) chunked and in-memory differ in {int((got0 != ref0).sum())} pixels, "
          f"with the default they differ in {int((got != ref).sum())}")

assert int(holes_inmem.sum()) == 0, "in-memory reference unexpectedly has holes"
assert not holes_chunked.any(), (
    f"chunked reprojection has {int(holes_chunked.sum())} nodata pixels deep inside the source footprint "
    "where the in-memory reprojection has data"
)
print("OK")
