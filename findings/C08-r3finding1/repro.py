"""
C08 finding 1: GeoBox built from a region that has to be reprojected first
(from_geopolygon(..., crs=) and from_bbox(lonlat_bbox, "utm...")) does NOT cover
the region: only the existing vertices are projected (Geometry.to_crs is called
without densification), so edges that become curves in the target CRS bulge out
of the vertex bounding box by hundreds of pixels.
"""
import sys
import warnings

warnings.filterwarnings("ignore")

from odc.geo import geom
from odc.geo.geobox import GeoBox

failures = []


def pix_outside(gbox, lon, lat):
    """How many pixels the lon/lat point lies outside of gbox (0 when inside)."""
    x, y = geom.point(lon, lat, "epsg:4326").to_crs(gbox.crs).coords[0]
    px, py = (~gbox.affine) * (x, y)
    ny, nx = gbox.shape
    return max(0 - px, px - nx, 0 - py, py - ny, 0)


# --- case 1: from_geopolygon(..., crs=) -----------------------------------------
region = geom.box(110, -45, 155, -10, "epsg:4326")
gbox = GeoBox.from_geopolygon(region, resolution=1000, crs="epsg:3577", tol=0.01)
# (132.5, -10) sits in the middle of the region's northern edge: it is part of the region
pt = (132.5, -10.0)
assert region.geom.covers(geom.point(*pt, "epsg:4326").geom)
miss = pix_outside(gbox, *pt)
print("case 1: from_geopolygon(box(110,-45,155,-10, 4326), resolution=1000, crs='epsg:3577')")
print("   expected: region point", pt, "inside geobox (at most 0.01 pixel outside)")
print(f"   observed: it is {miss:.1f} pixels outside of {gbox.shape} geobox")
if miss > 0.011:
    failures.append(("from_geopolygon", miss))

# --- case 2: from_bbox with lonlat bbox and crs='utm' ------------------------------
bbox = (0, 60, 6, 61)  # UTM zone 31, central meridian 3E
gbox = GeoBox.from_bbox(bbox, "utm", resolution=10)
pt = (3.0, 60.0)  # middle of the southern edge of the bounding box
miss = pix_outside(gbox, *pt)
print("case 2: from_bbox((0,60,6,61), 'utm', resolution=10) ->", gbox.crs)
print("   expected: bbox point", pt, "inside geobox (at most 0.01 pixel outside)")
print(f"   observed: it is {miss:.1f} pixels outside of {gbox.shape} geobox")
if miss > 0.011:
    failures.append(("from_bbox utm", miss))

if failures:
    print("FAIL:", failures)
    sys.exit(1)
print("OK")
