"""C07 finding 2: to_crs(resolution="auto") never returns for any geometry with zero area
(LineString, MultiLineString, LinearRing, degenerate polygon); same for resolution=0 / negative.

Expected: `resolution="auto"` is a documented value of Geometry.to_crs(); for a
line it must return the reprojected (possibly densified) line, like it does for
polygons.  resolution=0 / resolution<0 should either mean "no densification" or be
rejected with ValueError.

Observed: _auto_resolution() is sqrt(area)*4/100 == 0.0 for every geometry
without area, 0.0 passes the `math.isfinite(resolution)` guard in to_crs(), and
densify() then runs `d = 0; while d < segment_length: append; d += 0` forever,
appending vertices until memory is exhausted.

The call is guarded by a 5 second alarm (the same reprojection without a
resolution takes well under a millisecond) and an address-space limit.
"""
import resource
import signal
import sys
import time

from odc.geo import geom as G

TIMEOUT = 5

# safety net: never eat more than 4 GiB
try:
    resource.setrlimit(resource.RLIMIT_AS, (4 << 30, 4 << 30))
except (ValueError, OSError):
    pass


class Hang(Exception):
    pass


def _alarm(*_):
    raise Hang()


signal.signal(signal.SIGALRM, _alarm)

line = G.line([(10, 10), (11, 11), (12, 10)], "EPSG:4326")
cases = {
    "line.to_crs(3857, resolution='auto')": lambda: line.to_crs("EPSG:3857", resolution="auto"),
    "line.to_crs(3857, resolution=0)": lambda: line.to_crs("EPSG:3857", resolution=0),
    "line.segmented(-1)": lambda: line.segmented(-1),
}

t0 = time.time()
ref = line.to_crs("EPSG:3857")
print(f"reference line.to_crs(3857) took {time.time()-t0:.4f}s, {len(ref.coords)} vertices")

failed = 0
for name, fn in cases.items():
    signal.alarm(TIMEOUT)
    try:
        out = fn()
        signal.alarm(0)
    except Hang:
        failed += 1
        print(f"FAIL  {name}\n      expected: a LineString result (or ValueError for a non-positive resolution)")
        print(f"      observed: still running after {TIMEOUT}s (endless loop in densify)")
    except MemoryError:
        signal.alarm(0)
        failed += 1
        print(f"FAIL  {name}\n      expected: a LineString result (or ValueError)")
        print("      observed: MemoryError (endless loop in densify)")
    except ValueError as e:
        signal.alarm(0)
        print(f"ok    {name} -> rejected with ValueError: {e}")
    else:
        assert out.geom_type == "LineString"
        print(f"ok    {name} -> {len(out.coords)} vertices")

if failed:
    print(f"{failed}/{len(cases)} cases hang")
    sys.exit(1)
print("all fine")
