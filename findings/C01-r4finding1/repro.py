"""
C01 - GCPMapping / GCPGeoBox silently merge ground control points that carry
different CRSs: the CRS of the FIRST point is taken for all of them, the
coordinates of the others are used as they are.

Expected (property C01): combining CRS-tagged objects whose CRSs differ
(including "exactly one has no CRS") raises a CRS mismatch error (ValueError),
never a result computed from coordinates in different reference systems.
"""
import sys
import warnings

warnings.filterwarnings("ignore")

from odc.geo import xy_
from odc.geo.gcp import GCPGeoBox, GCPMapping
from odc.geo.geom import multigeom, multipoint, point

pix = [xy_(0, 0), xy_(100, 0), xy_(100, 100), xy_(0, 100), xy_(50, 50)]
lonlat = [(10, 50), (11, 50), (11, 49), (10, 49), (10.5, 49.5)]

pts_4326 = [point(x, y, "epsg:4326") for x, y in lonlat]
# same places on the ground, but all but the first one are given in EPSG:3857
pts_mixed = [pts_4326[0]] + [p.to_crs("epsg:3857") for p in pts_4326[1:]]
print("CRS tags of the world points:", [str(p.crs) for p in pts_mixed])

# reference behaviour of the geometry API on the very same list of points
try:
    multigeom(pts_mixed)
    print("multigeom(pts_mixed): no error ?!")
except ValueError as e:
    print("multigeom(pts_mixed) raises", type(e).__name__, "- as the property demands")

failures = []


def check(label, fn):
    try:
        m = fn()
    except ValueError as e:
        print(f"OK   {label}: raised {type(e).__name__}")
        return
    wld, _crs = m._wld, m.crs
    print(f"BAD  {label}: no error, mapping tagged crs={_crs}, world points used:")
    print("     ", wld.tolist())
    failures.append(label)


check("GCPMapping(pix, [4326, 3857, 3857, 3857, 3857])", lambda: GCPMapping(pix, pts_mixed))
check(
    "GCPMapping(pix, [no-crs, 4326, 4326, 4326, 4326])",
    lambda: GCPMapping(pix, [point(10, 50, None)] + pts_4326[1:]),
)
check(
    "GCPMapping(pix, [4326, 4326, 4326, 4326, no-crs])",
    lambda: GCPMapping(pix, pts_4326[:-1] + [point(10.5, 49.5, None)]),
)
check(
    "GCPMapping(pix, multipoint(.., 4326), crs=3857)  (explicit crs contradicts the geometry)",
    lambda: GCPMapping(pix, multipoint(lonlat, "epsg:4326"), "epsg:3857"),
)

if failures:
    m = GCPMapping(pix, pts_mixed)
    gbox = GCPGeoBox((100, 100), m)
    good = GCPGeoBox((100, 100), GCPMapping(pix, pts_4326))
    print()
    print("GCPGeoBox from the mixed points :", gbox, "extent bbox", gbox.extent.boundingbox)
    print("GCPGeoBox from all-4326 points  :", good, "extent bbox", good.extent.boundingbox)
    print("mapping.points[1] (a 'EPSG:4326' multipoint with metres in it):", m.points()[1])
    print()
    print(f"EXPECTED: ValueError (CRS mismatch) in all 4 cases; OBSERVED: {len(failures)} silently mixed results")
    sys.exit(1)

print("all good")
