"""
C02 / GCPGeoBox: world-to-pixel must be the inverse of pixel-to-world, exactly when the
control points are affinely related.  With the most ordinary layout - one control point per
image corner - and an image rotated by exactly 45 (135, 225, 315) degrees, wld2pix is off by
tens to thousands of pixels away from the corners, while pix2wld is exact.

run:  PYTHONPATH=/tmp/seed/C02 /venv/bin/python repro.py
"""
import sys
import warnings

warnings.filterwarnings("ignore")

import numpy as np
from affine import Affine

from odc.geo.gcp import GCPGeoBox, GCPMapping
from odc.geo.geobox import GeoBox

TOL_PX = 1e-3
worst = 0.0
rows = []
for (ny, nx), (tx, ty) in [((100, 100), (0.0, 0.0)), ((175, 134), (500_000.0, 6_000_000.0)), ((1000, 3000), (0.0, 0.0))]:
    for deg in (30, 44, 45, 135, 225, 315):
        A = Affine.translation(tx, ty) * Affine.rotation(deg) * Affine.scale(10.0, -10.0)
        ref = GeoBox((ny, nx), A, "epsg:32633")  # linear GeoBox with the same mapping = oracle

        pix = np.array([(0, 0), (nx, 0), (nx, ny), (0, ny)], dtype="float64")  # 4 corners
        wld = np.array([ref.pix2wld(x, y) for x, y in pix])
        gbox = GCPGeoBox((ny, nx), GCPMapping(pix, wld, "epsg:32633"))

        probe = np.array([(nx * a, ny * b) for a in (0, 0.25, 0.5, 0.8, 1) for b in (0, 0.3, 0.5, 0.75, 1)])
        w_exp = np.array([ref.pix2wld(x, y) for x, y in probe])
        w_got = np.array(gbox.pix2wld(probe[:, 0], probe[:, 1])).T
        p2w = np.abs(w_got - w_exp).max() / 10.0
        p_got = np.array(gbox.wld2pix(w_exp[:, 0], w_exp[:, 1])).T
        w2p = np.abs(p_got - probe).max()
        # round trip through the GCP geobox alone
        rt = np.abs(np.array(gbox.wld2pix(*gbox.pix2wld(probe[:, 0], probe[:, 1]))).T - probe).max()
        rows.append((ny, nx, tx, deg, p2w, w2p, rt))
        print(f"shape={ny}x{nx} origin=({tx:g},{ty:g}) rotation={deg:3d} deg: pix2wld err {p2w:8.2g} px | wld2pix err {w2p:8.3g} px | wld2pix(pix2wld(p)) - p = {rt:8.3g} px")
        if deg in (45, 135, 225, 315):
            worst = max(worst, w2p, rt)
        else:
            assert w2p < TOL_PX and rt < TOL_PX, "control: other angles are fine"

print()
print(f"expected: wld2pix is the inverse of pix2wld to better than {TOL_PX} px for every rotation angle")
print(f"observed: worst wld2pix error for rotations by a multiple of 45 degrees: {worst:.3g} px")
if worst > TOL_PX:
    print("FAIL")
    sys.exit(1)
print("OK")
