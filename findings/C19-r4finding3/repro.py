"""
C19: CRS equality must be transitive, and lossless equivalent specifications of
one EPSG code must give equal CRS objects.

CRS.__eq__ has a fast path: when both ``_str`` start with "EPSG:" the answer is
the *textual* comparison of the two strings.  ``_str`` is the user's text, only
upper-cased, so every spelling that PROJ accepts for the same code but that is
not byte-identical ("EPSG:4326\\n" read from a text file, "epsg:4326\\t",
"EPSG:04326", "EPSG:+4326") is declared different from "EPSG:4326", while both
are still equal (through the pyproj comparison) to the WKT2 / PROJJSON / pyproj
forms of the same CRS:   a == b and b == c but a != c.
"""
import pickle

import pyproj

from odc.geo.crs import CRS
from odc.geo.geobox import GeoBox
from affine import Affine

failures = []
canonical = CRS("EPSG:4326")
p = pyproj.CRS.from_epsg(4326)
bridges = {
    "WKT2": CRS(p.to_wkt()),
    "PROJJSON": CRS(p.to_json()),
    "urn": CRS("urn:ogc:def:crs:EPSG::4326"),
}

for spelling in ["EPSG:4326\n", "epsg:4326\t", "EPSG:04326", "EPSG:+4326"]:
    a = CRS(spelling)
    print(f"--- a = CRS({spelling!r}):  str(a) = {str(a)!r}, a.epsg = {a.epsg}, pyproj says equal to EPSG:4326: {a.proj == canonical.proj}")
    for name, b in bridges.items():
        ab, bc, ac = a == b, b == canonical, a == canonical
        print(f"    a == {name}: {ab};  {name} == CRS('EPSG:4326'): {bc};  a == CRS('EPSG:4326'): {ac}")
        if ab and bc and not ac:
            failures.append((spelling, name))
    # survives pickling, reaches the containers
    a2 = pickle.loads(pickle.dumps(a))
    g1 = GeoBox((2, 2), Affine(1, 0, 0, 0, -1, 0), a2)
    g2 = GeoBox((2, 2), Affine(1, 0, 0, 0, -1, 0), canonical)
    print(f"    GeoBox(.., a) == GeoBox(.., 'EPSG:4326'): {g1 == g2}")

print()
print("expected: a == CRS('EPSG:4326') is True for every spelling (same EPSG code, .epsg agrees, pyproj agrees), equality transitive")
print(f"observed: {len(failures)} non-transitive triples: {failures}")
assert not failures, "CRS equality is not transitive"
print("OK")
