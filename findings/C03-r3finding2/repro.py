"""
C03 finding 2: align=0 (accepted as "no alignment" by compute_reproject_roi)
shrinks the source region by one pixel on its far edges.

compute_reproject_roi treats align in (None, 0) as "tight" but forwards the 0
to roi_from_points(), which only skips alignment for ``align is None``:
align_up(x, 0) == align_down(x - 1, 0) == (x - 1) - ((x - 1) % 0) == x - 1
(numpy int32 ``% 0`` is 0 plus a RuntimeWarning), so the stop of every slice
loses one pixel.  With padding=0 a needed source row/column is dropped, and
when the overlap is a single source row the plan is reported as empty.
"""
import warnings

import numpy as np
from affine import Affine

from odc.geo import xy_
from odc.geo.geobox import GeoBox
from odc.geo.overlap import compute_reproject_roi

warnings.simplefilter("ignore")


def missing_pixels(src, dst, **kw):
    rr = compute_reproject_roi(src, dst, **kw)
    ny, nx = dst.shape
    yy, xx = (a.ravel() for a in np.mgrid[0:ny, 0:nx])
    pts = rr.transform.back([xy_(x + 0.5, y + 0.5) for x, y in zip(xx, yy)])
    px = np.array([p.x for p in pts])
    py = np.array([p.y for p in pts])
    inside = (px > 0) & (px < src.shape.x) & (py > 0) & (py < src.shape.y)
    (sy, sx), (dy, dx) = rr.roi_src, rr.roi_dst
    in_src = (px >= sx.start) & (px <= sx.stop) & (py >= sy.start) & (py <= sy.stop)
    in_dst = (yy >= dy.start) & (yy < dy.stop) & (xx >= dx.start) & (xx < dx.stop)
    return rr, int((inside & ~in_src).sum()), int((inside & ~in_dst).sum())


src = GeoBox((33, 33), Affine(10, 0, 0, 0, -10, 0), "EPSG:3857")
# destination pixels are 10x finer than the source (x_src = 0.1*x_dst + 10.95)
dst = GeoBox((50, 50), src.affine * Affine.translation(10.95, 10.95) * Affine.scale(0.1), "EPSG:3857")

ref, ref_src, ref_dst = missing_pixels(src, dst, padding=0)  # align=None
rr, n_src, n_dst = missing_pixels(src, dst, padding=0, align=0)

print("align=None:", ref.roi_src, ref.roi_dst, "missing:", ref_src, ref_dst)
print("align=0   :", rr.roi_src, rr.roi_dst, "missing:", n_src, n_dst)
print("expected: align=0 plans the same regions as align=None and no destination pixel "
      "maps outside roi_src / roi_dst")
print(f"observed: {n_src} destination pixels map outside roi_src, {n_dst} lie outside roi_dst")

assert (ref_src, ref_dst) == (0, 0)
assert rr.roi_src == ref.roi_src, f"roi_src differs: {rr.roi_src} != {ref.roi_src}"
assert (n_src, n_dst) == (0, 0)
