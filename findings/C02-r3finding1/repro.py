"""
C02: "footprint polygon, bounding box, ... are exactly the images of the pixel
rectangle under that mapping ... GCP-based GeoBoxes satisfy the same relations".

GCPGeoBox.boundingbox ignores the GCP mapping: it returns the pixel rectangle
(mapped through the crop/zoom affine only) labelled with the world CRS.
As a consequence GCPGeoBox.zoom_to(resolution=...) produces a geobox with a
completely wrong resolution.
"""
import numpy as np
from affine import Affine

from odc.geo.gcp import GCPGeoBox, GCPMapping

# control points exactly affinely related: world = A * pix
A = Affine.translation(500_000, 6_000_000) * Affine.scale(10, -10)
pix = np.array([(x, y) for x in (0, 30, 70, 100) for y in (0, 40, 80)], dtype=float)
wld = np.array([A * tuple(p) for p in pix])

gbox = GCPGeoBox((80, 100), GCPMapping(pix, wld, "epsg:32633"))

# expected: image of the pixel rectangle (0,0)-(100,80) under pix2wld
corners = [gbox.pix2wld(x, y) for x, y in [(0, 0), (100, 0), (100, 80), (0, 80)]]
xx = [float(x) for x, _ in corners]
yy = [float(y) for _, y in corners]
expected = (min(xx), min(yy), max(xx), max(yy))

bbox = gbox.boundingbox
print("expected boundingbox (image of pixel rect):", expected)
print("extent.boundingbox                        :", tuple(gbox.extent.boundingbox))
print("observed gbox.boundingbox                 :", tuple(bbox), bbox.crs)

zoomed = gbox.zoom_to(resolution=20)
print("zoom_to(resolution=20): expected |res| ~ 20, shape ~ (40, 50)")
print("zoom_to(resolution=20): observed", zoomed.resolution, zoomed.shape)

assert np.allclose(tuple(bbox), expected, atol=1e-3), (
    f"GCPGeoBox.boundingbox={tuple(bbox)} is not the image of the pixel rectangle {expected}"
)
assert np.allclose([abs(zoomed.resolution.x), abs(zoomed.resolution.y)], 20, rtol=0.05)
