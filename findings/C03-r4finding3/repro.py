"""
C03: an EMPTY source GeoBox (0 rows and/or 0 columns) paired with a destination whose
pixels are an integer multiple coarser gives a plan with non-empty regions:
roi_src reaches outside the (empty) source image and roi_dst has non-zero area.
With equal pixel size, with a non-integer ratio, or across CRSs the same empty
source correctly gives zero-area regions.

run:  PYTHONPATH=/tmp/seed/C03 /venv/bin/python repro.py
"""
import sys
import warnings

warnings.simplefilter("ignore")

import numpy as np
from affine import Affine

from odc.geo.geobox import GeoBox
from odc.geo.math import align_up
from odc.geo.overlap import compute_reproject_roi
from odc.geo.roi import roi_is_empty, roi_shape

A = Affine(10, 0, 0, 0, -10, 0)
big = GeoBox((20, 20), A, "EPSG:3857")
failures = 0

for name, src in [
    ("GeoBox((0, 20))", GeoBox((0, 20), A, "EPSG:3857")),
    ("GeoBox((20, 0))", GeoBox((20, 0), A, "EPSG:3857")),
    ("GeoBox((0, 0))", GeoBox((0, 0), A, "EPSG:3857")),
    ("big[5:5, :]  (empty crop)", big[5:5, :]),
]:
    for k in (1, 1.5, 2, 3, 8):
        dst = GeoBox((5, 5), src.transform * Affine.scale(k), "EPSG:3857")
        ri = compute_reproject_roi(src, dst)
        H, W = src.shape
        (sy, sx), rs = ri.roi_src, ri.read_shrink
        inside = sy.stop <= align_up(H, rs) and sx.stop <= align_up(W, rs)
        empty = roi_is_empty(ri.roi_src) and roi_is_empty(ri.roi_dst)
        ok = inside and empty
        failures += not ok
        # what a loader would do with this plan
        data = np.zeros(src.shape, dtype="uint8")
        got = data[ri.roi_src][::rs, ::rs].shape
        print(
            f"src={name} shape={src.shape.yx} dst pixel = {k} x src pixel: "
            f"roi_src={ri.roi_src} roi_dst={ri.roi_dst} read_shrink={rs} paste_ok={ri.paste_ok}"
            f"  -> {'ok' if ok else 'WRONG'}"
        )
        if not ok:
            print(
                f"     expected: zero-area regions inside the {H}x{W} source;"
                f" observed: roi_src inside image={inside}, roi_dst shape={roi_shape(ri.roi_dst)},"
                f" source data available for it: {got}"
            )

if failures:
    print(f"FAIL: {failures} plans for an empty source have non-empty / out-of-image regions")
    sys.exit(1)
print("OK")
