"""
C04: "for all rectangle sizes ... all chunk tuples" (incl. huge): a variable-sized tiling must
cover the rectangle exactly with the advertised chunks.

VariableSizedTiles keeps its cumulative offsets in int32 (np.cumsum(dtype="int32")), which wraps
around silently as soon as one axis is 2**31 pixels or longer; a single chunk >= 2**31 raises
OverflowError from numpy>=2 instead.  The regular Tiles class (python ints) handles the very
same rectangle correctly, and GeoBox itself has no such limit.
"""
import sys

from odc.geo.roi import Tiles, VariableSizedTiles, roi_shape

N = 3 * 2**30  # 3_221_225_472 pixel long axis, split in 3 chunks of 2**30
reg = Tiles((N, 5), (2**30, 5))
chunks = reg.chunks
print("regular tiling :", reg, " chunks:", chunks, " last tile:", reg[2, 0])
assert reg.base == (N, 5) and reg[2, 0] == (slice(2 * 2**30, N), slice(0, 5))

try:
    var = VariableSizedTiles(chunks)
    print("chunked tiling : base =", var.base.yx, " chunks =", var.chunks, " tile[2,0] =", var[2, 0])
    problems = []
    if var.base != (N, 5):
        problems.append(f"base: expected {(N, 5)}, observed {var.base.yx}")
    if var.chunks != chunks:
        problems.append(f"chunks: expected {chunks}, observed {var.chunks}")
    for r in range(3):
        if var[r, 0] != reg[r, 0]:
            problems.append(f"tile[{r},0]: expected {reg[r, 0]}, observed {var[r, 0]}")
        if var.tile_shape((r, 0)).yx != roi_shape(reg[r, 0]):
            problems.append(f"tile_shape(({r},0)): expected {roi_shape(reg[r, 0])}, observed {var.tile_shape((r, 0)).yx}")
    try:
        loc = var.locate((N - 1, 0))
    except Exception as e:  # pylint: disable=broad-except
        loc = f"{type(e).__name__}: {e}"
    if loc != (2, 0):
        problems.append(f"locate(({N - 1}, 0)): expected (2, 0), observed {loc}")
except Exception as e:  # pylint: disable=broad-except
    problems = [f"constructor crashed: {type(e).__name__}: {e}"]

for p in problems:
    print("MISMATCH", p)
assert not problems, "VariableSizedTiles is not a partition of a rectangle with an axis >= 2**31 px"
sys.exit(0)
