"""
C02: "GCP-based GeoBoxes satisfy the same relations, exactly when their control
points are affinely related".

With a regular odd x odd grid of control points (3x3 here) one control point
sits exactly at the centroid of the point set.  odc.geo.math.norm_xy computes
its scale as mean(1/distance) (docstring promises "mean distance is sqrt(2)"),
so the zero distance gives inf, the normalised points become nan/inf, and
Poly2d.fit -> numpy.linalg.lstsq blows up.  pix2wld / wld2pix / extent of such
a GCPGeoBox are unusable although the points are perfectly affinely related.
"""
import numpy as np
from affine import Affine

from odc.geo.gcp import GCPGeoBox, GCPMapping

A = Affine.translation(500_000, 6_000_000) * Affine.scale(10, -10)
pix = np.array([(x, y) for x in (0, 50, 100) for y in (0, 40, 80)], dtype=float)
wld = np.array([A * tuple(p) for p in pix])

gbox = GCPGeoBox((80, 100), GCPMapping(pix, wld, "epsg:32633"))

print("expected: pix2wld(10, 20) ==", A * (10, 20), "and wld2pix inverse of it")
wx, wy = gbox.pix2wld(10, 20)  # crashes: LinAlgError (or returns nan)
print("observed: pix2wld(10, 20) ==", (wx, wy))
px, py = gbox.wld2pix(wx, wy)
print("observed: wld2pix(...)    ==", (px, py))

assert np.allclose((wx, wy), A * (10, 20), atol=1e-3)
assert np.allclose((px, py), (10, 20), atol=1e-6)
print("extent:", gbox.extent.boundingbox)
