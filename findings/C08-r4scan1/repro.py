"""F89 (R-ISNUM scan, round 4): numpy floats as anchor / CRS.utm coordinates."""
import sys
import numpy as np
from odc.geo.crs import CRS
from odc.geo.geobox import GeoBox
try:
    a = GeoBox.from_bbox((0, 0, 10, 10), "epsg:3857", resolution=1, anchor=np.float32(0.5))
    b = GeoBox.from_bbox((0, 0, 10, 10), "epsg:3857", resolution=1, anchor=0.5)
    ok = a == b and CRS.utm(np.float32(151.2), np.float32(-33.8)) == CRS.utm(151.2, -33.8)
except Exception as e:  # pylint: disable=broad-except
    print("FAIL:", type(e).__name__, e); sys.exit(1)
print("ok" if ok else "FAIL"); sys.exit(0 if ok else 1)
