"""
C19: "equality within a type is reflexive, symmetric and TRANSITIVE" -- for CRS.

CRS.__eq__ has a shortcut `if self._epsg and other._epsg: return self._epsg == other._epsg`.
For a CRS that was not built from an EPSG code, `_epsg` is a *lazy, per-instance*
cache (0 = "not looked up yet") that is filled by reading `.epsg` / `.to_epsg()`,
and pyproj's to_epsg() is a fuzzy lookup (min_confidence=70): it reports an EPSG
code for definitions that pyproj does NOT consider equal to that EPSG CRS
(different axis order, lost datum shift, ESRI naming ...).

So the answer of `==` depends on whether somebody has looked at `.epsg` of that
particular instance before, and two instances built from the very same
specification stop being interchangeable:

    a1 = CRS(spec); a2 = CRS(spec); b = CRS(<epsg reported for spec>)
    a1.epsg                      # just reading a property
    a1 == a2  (True),  a1 == b  (True),  but  a2 == b  (False)

This is not the (already known) EPSG-vs-WKT hash problem: it is __eq__ itself that
is not an equivalence relation, and it changes its mind over time.
"""
import warnings

warnings.filterwarnings("ignore")

from odc.geo import CRS  # noqa: E402
from odc.geo.geom import BoundingBox  # noqa: E402

specs = {
    "PROJ string lon/lat": "+proj=longlat +datum=WGS84 +no_defs",
    "ESRI WKT of WGS84": CRS(4326).proj.to_wkt("WKT1_ESRI"),
    "PROJ string of British National Grid": CRS(27700).proj.to_proj4(),
}

failures = []
for name, spec in specs.items():
    a1 = CRS(spec)
    a2 = CRS(spec)  # same specification -> same value
    code = a1.proj.to_epsg()
    assert code is not None
    b = CRS(code)

    before = a1 == b
    _ = a1.epsg  # read-only property access on ONE of the two instances
    after = a1 == b

    print(f"{name}: reported epsg={code}; pyproj says equal to EPSG:{code}: {a1.proj == b.proj}")
    print(f"   a1 == b before reading a1.epsg: {before};  after: {after}")
    print(f"   a1 == a2: {a1 == a2}   a1 == b: {a1 == b}   a2 == b: {a2 == b}   b == a2: {b == a2}")

    if before != after:
        failures.append(f"{name}: result of a1 == b changed from {before} to {after} by reading a1.epsg")
    if (a1 == a2) and (a1 == b) and not (a2 == b):
        failures.append(f"{name}: not transitive: a2 == a1 and a1 == b but a2 != b")
    # the same leaks into every value type that embeds a CRS
    bb1, bb2, bb3 = (BoundingBox(0, 0, 1, 1, c) for c in (a1, a2, b))
    if bb1 == bb2 and bb1 == bb3 and not bb2 == bb3:
        failures.append(f"{name}: BoundingBox equality not transitive either")

print()
print("expected: == on CRS is an equivalence relation that does not depend on earlier property reads")
print(f"observed: {len(failures)} violations")
for f in failures:
    print("   ", f)
assert not failures
print("OK")
