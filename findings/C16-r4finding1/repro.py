"""
C16: GeoBoxes derived from one base grid by integer pixel shifts must be accepted by
union / intersection / overlap_roi (only grids that are NOT related by a whole-pixel
shift are to be rejected).

On a 5 cm UTM grid (ordinary drone / aerial ortho-mosaic: pixel 0.05 m, northing ~6e6 m)
crops of the SAME GeoBox are rejected as "Incompatible grids" for ~40% of the offsets.
"""
import sys
from fractions import Fraction as F

import numpy as np
from affine import Affine

from odc.geo.geobox import GeoBox, pixel_translation

base = GeoBox((20000, 20000), Affine(0.05, 0, 500000, 0, -0.05, 6000000), "epsg:32755")

# ---- 1. one concrete pair, both are plain crops of `base` -------------------------------
y, x = 997, 0
a = base[y : y + 100, x : x + 100]
b = base[y + 37 : y + 137, x + 41 : x + 141]  # a shifted by (+41, +37) whole pixels
print("a =", repr(a))
print("b =", repr(b))
print("pixel_translation(b, a) =", pixel_translation(b, a), " (expected exactly 41, 37)")

# independent oracle: exact rational arithmetic on the stored float64 numbers
ex_ty = (F(b.affine.f) - F(a.affine.f)) / F(a.affine.e)
print("exact offset of the stored origins, y: 37 + %.3e pixel" % float(ex_ty - 37))
# float64 northings near 6e6 m are quantised in steps of 9.3e-10 m = 1.9e-8 pixel, i.e. the
# representable origins are further apart than the 1e-8 pixel tolerance: whether a shifted copy
# is "on the grid" depends on how the two origins happened to round
for nxt in (np.nextafter(b.affine.f, np.inf), np.nextafter(b.affine.f, -np.inf)):
    d = (F(float(nxt)) - F(a.affine.f)) / F(a.affine.e) - 37
    print("   b's origin moved by one ulp -> offset error %.3e pixel" % float(d))
print("   (1 ulp of the northing 5999950 m is %.2e m = %.2e pixel: the 1e-8 pixel tolerance"
      " is finer than the float64 spacing of the origins)" % (np.spacing(b.affine.f), np.spacing(b.affine.f) / 0.05))

problems = []
expected = {
    "a & b": ("shape (63, 59)", lambda: tuple((a & b).shape)),
    "a | b": ("shape (137, 141)", lambda: tuple((a | b).shape)),
    "a.overlap_roi(b)": ("(slice(37,100), slice(41,100))", lambda: a.overlap_roi(b)),
}
want = {
    "a & b": (63, 59),
    "a | b": (137, 141),
    "a.overlap_roi(b)": np.s_[37:100, 41:100],
}
for name, (txt, fn) in expected.items():
    try:
        got = fn()
    except Exception as e:  # pylint: disable=broad-except
        print(f"{name}: expected {txt}, observed {type(e).__name__}: {e}")
        problems.append(name)
        continue
    print(f"{name}: expected {txt}, observed {got}")
    if got != want[name]:
        problems.append(name)

# ---- 2. how common is it: regular scan of crop positions on the same base -----------------
n = bad = 0
for yy in range(0, 20000 - 200, 997):
    for xx in range(0, 20000 - 200, 991):
        p = base[yy : yy + 100, xx : xx + 100]
        q = base[yy + 37 : yy + 137, xx + 41 : xx + 141]
        n += 1
        try:
            assert tuple((p & q).shape) == (63, 59)
        except ValueError:
            bad += 1
print(f"5 cm grid : {bad} of {n} crop pairs of the same GeoBox rejected by `&` (expected 0)")

# 2 cm grid: even `base.overlap_roi(base[...])` fails
base2 = GeoBox((20000, 20000), Affine(0.02, 0, 500000, 0, -0.02, 6000000), "epsg:32755")
n2 = bad2 = 0
for yy in range(0, 20000 - 256, 256):
    for xx in range(0, 20000 - 256, 256):
        n2 += 1
        try:
            roi = base2.overlap_roi(base2[yy : yy + 256, xx : xx + 256])
            assert roi == np.s_[yy : yy + 256, xx : xx + 256]
        except ValueError:
            bad2 += 1
print(f"2 cm grid : {bad2} of {n2} 256x256 tiles T=base[...] rejected by base.overlap_roi(T) (expected 0)")

if problems or bad or bad2:
    print("FAIL: geoboxes related by a whole-pixel shift are rejected as incompatible")
    sys.exit(1)
print("OK")
