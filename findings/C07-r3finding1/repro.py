"""C07 finding 1: densification (segmented / to_crs(resolution=...)) crashes on empty geometries.

Expected: an empty LineString / Polygon (for example the intersection of two
disjoint boxes) is a perfectly good Geometry; to_crs() without a resolution
handles it fine and returns an empty geometry of the same type in the target
CRS.  Asking for densification must give the same answer (nothing to densify).

Observed: IndexError: list index out of range (densify() does coords[0]).
"""
import sys
import traceback

from shapely import geometry as sg

from odc.geo import geom as G
from odc.geo.geom import Geometry

a = G.box(0, 0, 1, 1, "EPSG:4326")
b = G.box(2, 2, 3, 3, "EPSG:4326")
empty_from_op = a & b  # empty Polygon, crs=EPSG:4326
assert empty_from_op.is_empty and empty_from_op.geom_type == "Polygon"

cases = {
    "(box & disjoint box).to_crs(3857, resolution=0.1)": lambda: empty_from_op.to_crs(
        "EPSG:3857", resolution=0.1
    ),
    "empty Polygon .segmented(1)": lambda: Geometry(sg.Polygon(), "EPSG:4326").segmented(1),
    "empty LineString .segmented(1)": lambda: Geometry(sg.LineString(), "EPSG:4326").segmented(1),
    "GeometryCollection[Point, empty Polygon].to_crs(3857, resolution=1)": lambda: Geometry(
        sg.GeometryCollection([sg.Point(1, 2), sg.Polygon()]), "EPSG:4326"
    ).to_crs("EPSG:3857", resolution=1),
}

# reference behaviour without densification: works
ref = empty_from_op.to_crs("EPSG:3857")
print("reference, no resolution :", ref, "-> OK")

failed = 0
for name, fn in cases.items():
    try:
        out = fn()
    except Exception as e:  # pylint: disable=broad-except
        failed += 1
        print(f"FAIL  {name}\n      expected: empty geometry of the same type (as without resolution)")
        print(f"      observed: {type(e).__name__}: {e}")
        tb = traceback.extract_tb(e.__traceback__)[-1]
        print(f"      at {tb.filename}:{tb.lineno} in {tb.name}: {tb.line}")
    else:
        print(f"ok    {name} -> {out}")

if failed:
    print(f"{failed}/{len(cases)} cases crashed")
    sys.exit(1)
print("all fine")
