"""
C19: objects that compare unequal must never share a dask token.

GCPMapping.__dask_tokenize__ returns its two coordinate arrays as raw numpy
arrays.  dask does not normalise the value returned by __dask_tokenize__ any
further, it hashes str(<returned tuple>).  str() of an ndarray is the *printed*
form: 8 digits, and everything but the first/last 3 rows replaced by "..." once
the array has more than 1000 elements (> 500 control points).  So:

 (A) two GCP sets with > 500 points that differ -- by any amount -- only in the
     rows that numpy elides get the same token;
 (B) two small GCP sets whose coordinates differ below numpy's print precision
     get the same token.

The same token is inherited by GCPGeoBox and by GeoboxTiles built on it.
"""
import numpy as np
from dask.base import tokenize

from odc.geo.gcp import GCPGeoBox, GCPMapping
from odc.geo.geobox import GeoboxTiles

failures = []


def check(label, a, b):
    eq = a == b
    ta, tb = tokenize(a), tokenize(b)
    print(f"{label}: a == b -> {eq};  token(a) = {ta}, token(b) = {tb}")
    if not eq and ta == tb:
        failures.append(label)
        print("   VIOLATION: expected different tokens for unequal objects, observed the same token")


# ---- (A) 30 x 30 = 900 control points, second set warped by ~0.5 degree in the middle rows
iy, ix = np.mgrid[0:30, 0:30]
pix = np.stack([ix.ravel() * 100.0, iy.ravel() * 100.0], axis=1)  # 900 x 2
wld_a = np.stack([10 + pix[:, 0] * 1e-4, 50 - pix[:, 1] * 1e-4], axis=1)
wld_b = wld_a.copy()
wld_b[10:-10] += 0.5  # ~55 km shift of 880 of the 900 control points

m_a = GCPMapping(pix, wld_a, "EPSG:4326")
m_b = GCPMapping(pix, wld_b, "EPSG:4326")
assert not np.array_equal(wld_a, wld_b)
check("A/GCPMapping  (900 GCPs, 880 moved by 0.5 deg)", m_a, m_b)

g_a = GCPGeoBox((3000, 3000), m_a)
g_b = GCPGeoBox((3000, 3000), m_b)
check("A/GCPGeoBox   (same mappings)", g_a, g_b)
check("A/GeoboxTiles (same geoboxes)", GeoboxTiles(g_a, (512, 512)), GeoboxTiles(g_b, (512, 512)))

# ---- (B) 6 control points in degrees, second set moved by 3e-9 degree (numpy prints 8 decimals)
pix6 = np.array([[0, 0], [10980, 0], [0, 10980], [10980, 10980], [5490, 5490], [2000, 8000]], dtype="float64")
wld6_a = np.stack([10 + pix6[:, 0] * 1e-4, 50 - pix6[:, 1] * 1e-4], axis=1) + 0.000123
wld6_b = wld6_a + 3e-9
s_a = GCPMapping(pix6, wld6_a, "EPSG:4326")
s_b = GCPMapping(pix6, wld6_b, "EPSG:4326")
assert not np.array_equal(wld6_a, wld6_b)
check("B/GCPMapping  (6 GCPs, moved by 3e-9 deg)", s_a, s_b)
check("B/GCPGeoBox   (same mappings)", GCPGeoBox((10980, 10980), s_a), GCPGeoBox((10980, 10980), s_b))

assert not failures, f"unequal objects share a dask token: {failures}"
print("OK")
