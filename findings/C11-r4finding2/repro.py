"""
C11: the GeoBox computed for a resolution-driven request is axis-aligned in the requested
CRS and contains every source pixel; only "the source's own CRS with DEFAULT options"
is allowed to hand the source back unchanged.

For a rotated source, asking for its own CRS with NON-default options that the same-CRS
shortcut does not look at (tight=True, resolution="same", tol=...) still returns the
rotated source itself: the result is not axis aligned.  The very same request with
resolution="fit" / anchor="edge" (options the shortcut does look at) returns a proper
axis-aligned enclosing grid, and so does the same request for any other CRS.
"""
import sys
import warnings

import numpy as np
from affine import Affine

warnings.filterwarnings("ignore")

from odc.geo.geobox import GeoBox
from odc.geo.overlap import compute_output_geobox

A = Affine.translation(512345.0, 6012345.0) * Affine.rotation(30) * Affine.scale(30, -30)
src = GeoBox((300, 400), A, "EPSG:32755")
assert not src.axis_aligned


def check(label, out):
    T = out.transform
    aligned = T.b == 0 and T.d == 0
    # all four source corners inside of the bounding box of the result *and* result is a north-up grid
    print(f"{label:45s} -> shape={tuple(out.shape)} b={T.b:.4g} d={T.d:.4g}  axis_aligned={aligned}  is_source={out is src}")
    return aligned


ok = True
# options the shortcut looks at: fine
ok &= check("same CRS, resolution='fit'", compute_output_geobox(src, "EPSG:32755", resolution="fit"))
ok &= check("same CRS, anchor='edge'", compute_output_geobox(src, "EPSG:32755", anchor="edge"))
ok &= check("other CRS (EPSG:3577), tight=True", compute_output_geobox(src, "EPSG:3577", tight=True))

print("expected: axis-aligned (b == d == 0) tight / same-resolution grid enclosing the rotated source")
bad = 0
for kw in [dict(tight=True), dict(resolution="same"), dict(resolution="same", tight=True, tol=0.3)]:
    out = src.to_crs("EPSG:32755", **kw)
    if not check(f"same CRS, {kw}", out):
        bad += 1
    out = src.to_crs("utm", **kw)  # resolves to the source CRS as well
    if not check(f"'utm', {kw}", out):
        bad += 1

assert ok, "control cases are expected to be axis aligned"
if bad:
    print(f"observed: {bad} requests with non-default options returned the rotated source unchanged (not axis aligned)")
    sys.exit(1)
print("ok")
