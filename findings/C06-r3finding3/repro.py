"""
C06 finding 3: the graph built by mpu_write embeds mutable MPUChunk objects that the
append task mutates in place, so executing the same graph a second time (a retry after
a failed upload, `persist` followed by `compute`, or simply calling .compute() twice)
re-uses chunks that already contain the bytes, the observed log and the part receipts of
the previous execution.

MPUChunk.from_dask_bag does  dask.bag.from_sequence(MPUChunk.gen_bunch(...))  - the
MPUChunk instances live inside the graph - and _mpu_append_chunks_op calls
mpu.append()/mpu.maybe_write() on exactly those instances.  On a local scheduler
(synchronous / threads, no serialisation) the second execution therefore appends every
chunk a second time: the byte stream is no longer header + chunks + footer, the
header callback sees every (size, id) twice and stale part receipts of the first run
are handed to finalise.

Property C06: equal byte stream / observed list / parts list "under any schedule ...
all ... execution orders".
"""
import sys
import tempfile
from pathlib import Path

import dask.bag as bag

from odc.geo.cog._mpu import mpu_write
from odc.geo.cog._mpu_fs import MPUFileSink


class MemWriter:
    def __init__(self):
        self.calls = []
        self.final = None

    def __call__(self, part, data):
        self.calls.append((part, bytes(data)))
        return {"PartNumber": part}

    def finalise(self, parts):
        self.final = list(parts)
        return self

    def reset(self):
        self.calls, self.final = [], None

    min_write_sz = 10
    max_write_sz = 1 << 30
    min_part = 1
    max_part = 10_000

    @property
    def data(self):
        return b"".join(d for _, d in sorted(self.calls, key=lambda x: x[0]))


chunks = [(bytes([65 + i]) * 30, i) for i in range(3)]
payload = b"".join(d for d, _ in chunks)
obs_expected = [(30, 0), (30, 1), (30, 2)]
HDR = b"HDR:"
problems = []

# ---- in-memory writer ---------------------------------------------------------
seen = []


def mk_header(observed):
    seen.append(list(observed))
    return HDR


w = MemWriter()
task = mpu_write(bag.from_sequence(chunks, npartitions=3), w, spill_sz=10, mk_header=mk_header)
task.compute(scheduler="synchronous")
first_ok = w.data == HDR + payload and seen[-1] == obs_expected
print("1st execution ok:", first_ok)
assert first_ok, "unexpected: first execution already wrong"

w.reset()  # fresh destination, same graph
try:
    task.compute(scheduler="synchronous")
    print(f"2nd execution: expected bytes   {HDR + payload!r}")
    print(f"               observed bytes   {w.data!r}")
    print(f"               expected observed-list {obs_expected}")
    print(f"               observed observed-list {seen[-1]}")
    print(f"               parts written now {[p for p, _ in w.calls]}, parts given to finalise {[p['PartNumber'] for p in (w.final or [])]}")
    if w.data != HDR + payload:
        problems.append("2nd execution wrote a different byte stream")
    if seen[-1] != obs_expected:
        problems.append("2nd execution: header callback observed a different list")
    if sorted(p["PartNumber"] for p in (w.final or [])) != sorted(p for p, _ in w.calls):
        problems.append("2nd execution: finalise() got parts that were not written in this run")
except Exception as e:  # pylint: disable=broad-except
    print(f"2nd execution crashed: {type(e).__name__}: {e}")
    problems.append(f"2nd execution crashed: {type(e).__name__}")

# ---- library file sink --------------------------------------------------------
with tempfile.TemporaryDirectory() as tmp:
    dst = Path(tmp) / "out.bin"
    sink = MPUFileSink(dst, min_write_sz=10)
    task = mpu_write(bag.from_sequence(chunks, npartitions=3), sink, spill_sz=10)
    task.compute(scheduler="synchronous")
    assert dst.read_bytes() == payload
    dst.unlink()
    try:
        task.compute(scheduler="synchronous")
        got = dst.read_bytes()
    except Exception as e:  # pylint: disable=broad-except
        got = f"<crash {type(e).__name__}: {e}>".encode()
    print(f"MPUFileSink 2nd execution: expected {payload!r}")
    print(f"                           observed {got!r}")
    if got != payload:
        problems.append("MPUFileSink: re-running the write task does not reproduce the file")

if problems:
    print("\nVIOLATIONS:")
    for p in problems:
        print("  -", p)
    sys.exit(1)
print("OK")
