"""
C18 / file sink, part sizes: a zero-length part anywhere but in first position
makes MPUFileSink.finalise crash with ``ValueError: cannot mmap an empty file``.
The sink itself happily accepts the empty part (``sink(2, b"")`` returns a
normal part record with Size 0), only the later finalise blows up -- half way
through, after the first part has already been renamed onto the destination.

Expected: dst == b"abc" + b"" + b"def", parts directory removed.
Observed: ValueError from finalise; dst holds only the first part, remaining
          parts and the parts directory are left behind.
"""
import shutil
import sys
import tempfile
from pathlib import Path

from odc.geo.cog._mpu_fs import MPUFileSink


def main() -> int:
    tmp = Path(tempfile.mkdtemp())
    try:
        dst = tmp / "out.bin"
        sink = MPUFileSink(dst)
        chunks = [b"abc", b"", b"def"]
        parts = [sink(i + 1, data) for i, data in enumerate(chunks)]
        assert [p["Size"] for p in parts] == [3, 0, 3]
        expected = b"".join(chunks)

        err = None
        try:
            sink.finalise(parts)
        except Exception as e:  # pylint: disable=broad-except
            err = e

        print(f"expected: finalise succeeds, content {expected!r}, parts dir removed")
        content = dst.read_bytes() if dst.exists() else None
        left = sorted(p.name for p in sink._parts_dir.iterdir()) if sink._parts_dir.exists() else []
        print(f"observed: error={err!r}, dst content={content!r}, parts left behind={left}")

        assert err is None, f"finalise failed on a zero-length part: {err!r}"
        assert content == expected
        assert not sink._parts_dir.exists()
        return 0
    finally:
        shutil.rmtree(tmp, ignore_errors=True)


if __name__ == "__main__":
    sys.exit(main())
