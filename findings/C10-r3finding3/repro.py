"""
C10 finding 3: near-integer scale accepted for paste regardless of image size

_can_paste accepts any scale within stol (default 1e-3, *relative*) of an integer and
snap_affine then pretends the scale is exactly 1.  The mis-registration this hides grows
linearly with the pixel index: |s-1| * N pixels at the far edge.  With the DEFAULT tolerances
a 0.05 % resolution mismatch (10 m vs 10.005 m pixels) on a 2000 px wide raster is reported
as paste_ok=True / read_shrink=1, yet from column 1000 onwards the nearest-neighbour warp
picks a different source pixel than the paste does (drift > 0.5 px, up to 1 px at the edge).
The translation tolerance (ttol) is an absolute sub-pixel bound; the scale tolerance is not
tied to it or to the raster size, so "paste == nearest warp" only holds for small rasters.
"""
import numpy as np
from affine import Affine

from odc.geo.geobox import GeoBox
from odc.geo.overlap import compute_reproject_roi
from odc.geo.warp import rio_reproject

NODATA = 0
T = Affine(10, 0, 600_000, 0, -10, 5_000_000)
rng = np.random.default_rng(0)
total_bad = 0

for k, N in [(1.0005, 400), (1.0005, 2000), (0.9995, 2000), (1.0001, 8000)]:
    src = GeoBox((3, N), T, "epsg:32633")
    dst = GeoBox((3, N), T * Affine.scale(k, 1), "epsg:32633")  # pixel width 10*k metres
    rr = compute_reproject_roi(src, dst)  # default ttol / stol
    print(f"\nscale={k} width={N}: paste_ok={rr.paste_ok} read_shrink={rr.read_shrink} roi_src={rr.roi_src} roi_dst={rr.roi_dst}")
    assert rr.paste_ok and rr.read_shrink == 1

    src_img = rng.integers(1, 60000, src.shape).astype("uint16")
    pasted = np.full(dst.shape, NODATA, "uint16")
    pasted[rr.roi_dst] = src_img[rr.roi_src]

    warped = np.full(dst.shape, NODATA, "uint16")
    rio_reproject(src_img, warped, src, dst, "nearest", src_nodata=NODATA, dst_nodata=NODATA)

    diff = (pasted != warped).any(axis=0)
    n = int(diff.sum())
    first = int(np.argmax(diff)) if n else None
    print(f"   expected: 0 differing columns; observed: {n} differing columns, first at column {first}")
    if n:
        c = first
        # what nearest really samples for dst column c
        true_col = int(np.floor(k * (c + 0.5)))
        print(f"   dst col {c}: paste copies src col {c}; nearest samples src col {true_col} "
              f"(pasted={pasted[0, c]}, warped={warped[0, c]}, src[0,{true_col}]={src_img[0, true_col] if true_col < N else 'outside'})")
    total_bad += n

assert total_bad == 0, f"paste_ok=True/read_shrink=1 but pasted image != nearest warp in {total_bad} columns"
