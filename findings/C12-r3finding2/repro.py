"""
C12 / finding 2: for a GeoBox whose x AND y resolutions are both negative (x-mirrored raster
with the usual negative y step, e.g. Affine(-1000, 0, x0, 0, -1000, y0)) the "robust" footprint
used by grid_intersect on the different-CRS path is SHRUNK by 2 pixels instead of being padded:

    GeoBoxBase.footprint(): buffer = buffer * max(*self.resolution.xy)   # max(-1000, -1000) < 0

so the destination tiles along the edge of the source raster get no dependency at all (they are
missing from the graph) although they overlap the source by up to two full source pixels.

Ground truth does not use odc-geo geometry code: destination pixel centres are mapped with pyproj
into the source pixel grid.
"""
import warnings

warnings.filterwarnings("ignore")

import numpy as np
from affine import Affine
from pyproj import Transformer

from odc.geo.geobox import GeoBox, GeoboxTiles

# 10x10 px source, 1km pixels, x axis mirrored (pixel column 0 is the EAST edge)
src = GeoBox((10, 10), Affine(-1000, 0, 510_000, 0, -1000, 6_010_000), "EPSG:32633")
ts = GeoboxTiles(src, (5, 5))
dst = GeoBox.from_bbox((14.99, 54.14, 15.164, 54.25), "EPSG:4326", resolution=0.001)
td = GeoboxTiles(dst, (8, 8))
tr = Transformer.from_crs("EPSG:4326", "EPSG:32633", always_xy=True)

print("src resolution:", src.resolution, " footprint(4326, buffer=2) vs footprint(4326, 0) area ratio:",
      round(src.footprint(4326, 2).area / src.footprint(4326, 0).area, 3), "(expected > 1)")

deps = td.grid_intersect(ts)

bad_tiles = {}
for didx in np.ndindex(td.shape.shape):
    gb = td[didx]
    yy, xx = np.meshgrid(np.arange(gb.shape.y) + 0.5, np.arange(gb.shape.x) + 0.5, indexing="ij")
    lon, lat = gb.transform * (xx, yy)
    x, y = tr.transform(lon, lat)
    px, py = ~src.transform * (x, y)
    ix, iy = np.floor(px).astype(int).ravel(), np.floor(py).astype(int).ravel()
    listed = set(deps.get(didx, []))
    for jx, jy in zip(ix, iy):
        if 0 <= jx < 10 and 0 <= jy < 10:
            t = ts.roi.locate((int(jy), int(jx)))
            if t not in listed:
                bad_tiles[didx] = bad_tiles.get(didx, 0) + 1

# same source area, ordinary orientation, for comparison
src_n = GeoBox((10, 10), Affine(1000, 0, 500_000, 0, -1000, 6_010_000), "EPSG:32633")
deps_n = td.grid_intersect(GeoboxTiles(src_n, (5, 5)))

print("expected: every destination tile having pixel centres inside the source raster lists the source tile(s) containing them")
print(f"          (the same raster stored un-mirrored yields {len(deps_n)} destination tiles with dependencies)")
print(f"observed: mirrored source yields {len(deps)} destination tiles with dependencies;")
print(f"          {len(bad_tiles)} destination tiles have pixels inside the source raster whose source tile is not listed,")
print(f"          {sum(bad_tiles.values())} destination pixels in total, e.g. {sorted(bad_tiles.items())[:6]}")
assert not bad_tiles, "C12 violated: grid_intersect drops overlapping tiles when the source has two negative resolutions"
print("OK")
