"""
C05 finding 1: save_cog_with_dask crashes for single-row / single-column images
(and more generally for any image whose short side is <= 2**n_overviews).

Expected: a COG is written that decodes to the original pixels.
Observed: ZeroDivisionError raised from GeoBox.zoom_to inside _make_empty_cog,
          before any task graph is even built.
"""
import os
import tempfile
import traceback
import warnings

import dask.array as da
import numpy as np
import rasterio
from affine import Affine

from odc.geo.cog import save_cog_with_dask
from odc.geo.geobox import GeoBox
from odc.geo.xr import wrap_xr

warnings.filterwarnings("ignore")

failures = []
for shape, blocksize in [
    ((1, 100), [16]),  # single row, several overview levels
    ((100, 1), [16]),  # single column
    ((1, 100), [112]),  # single row, tile larger than the image, no overviews at all
    ((8, 100), [16]),  # 8 rows: short side == 2**3 == 2**n_overviews
]:
    gbox = GeoBox(shape, Affine(10, 0, 1000, 0, -10, 5000), "epsg:3857")
    pix = np.arange(1, shape[0] * shape[1] + 1, dtype="uint16").reshape(shape)
    xx = wrap_xr(da.from_array(pix, chunks=(16, 16)), gbox)
    with tempfile.TemporaryDirectory() as td:
        fname = os.path.join(td, "out.tif")
        try:
            save_cog_with_dask(xx, fname, blocksize=blocksize).compute(
                scheduler="synchronous"
            )
            with rasterio.open(fname) as src:
                got = src.read(1)[: shape[0], : shape[1]]
            assert np.array_equal(got, pix), "pixels differ"
            print(f"shape={shape} blocksize={blocksize}: OK")
        except Exception as e:  # pylint: disable=broad-except
            tb = traceback.extract_tb(e.__traceback__)[-1]
            print(
                f"shape={shape} blocksize={blocksize}: expected a decodable COG, "
                f"observed {type(e).__name__}: {e} (at {tb.filename}:{tb.lineno} {tb.name})"
            )
            failures.append((shape, blocksize, repr(e)))

assert not failures, f"{len(failures)} single-row/column style images could not be saved: {failures}"
print("all good")
