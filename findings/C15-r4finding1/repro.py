"""
C15 finding 1: to_cog / write_cog never return (hang inside GDALClose of the temporary
in-memory GeoTIFF) for a small float32 image whose nodata value is not exactly
representable in float32 (0.1, 1e30, 1e20, -3.4e38, ...) when two or more overview
levels get built - either requested explicitly for a small image, or with ALL DEFAULT options
for an image >= 512 px whose content is (largely) constant.

Run:  PYTHONPATH=/tmp/seed/C15 /venv/bin/python repro.py
The write is attempted in a child process with a 25 s watchdog (normal run time: ~0.05 s).
"""
import subprocess
import sys

CHILD = r"""
import faulthandler, sys
faulthandler.dump_traceback_later(25, exit=True)   # watchdog: exits with status 1 on hang
import warnings; warnings.simplefilter("ignore")
import numpy as np
from affine import Affine
from rasterio.io import MemoryFile
from odc.geo.geobox import GeoBox
from odc.geo.xr import wrap_xr
from odc.geo.cog import to_cog

nodata = float(sys.argv[1])
n = int(sys.argv[2])
gbox = GeoBox((n, n), Affine(10, 0, 500000, 0, -10, 6000000), "EPSG:32633")
if sys.argv[3] == "random":
    pix = np.random.default_rng(0).normal(size=(n, n)).astype("float32")
    pix[:10, :10] = nodata
else:
    pix = np.ones((n, n), dtype="float32")      # constant image
xx = wrap_xr(pix, gbox, nodata=nodata)

kw = eval(sys.argv[4])
bb = to_cog(xx, **kw)      # default blocksize / ovr_blocksize (512)

with MemoryFile(bb) as mf, mf.open() as src:
    assert np.array_equal(src.read(1), pix)
    assert src.transform == gbox.transform
    print("  wrote", len(bb), "bytes, pixels/transform read back fine, overviews =", src.overviews(1), "nodata =", src.nodata)
"""


def attempt(*args: str) -> str:
    try:
        r = subprocess.run(
            [sys.executable, "-c", CHILD, *args],
            capture_output=True,
            timeout=60,
            text=True,
        )
    except subprocess.TimeoutExpired:
        return "HANG (child killed after 60 s)"
    if r.returncode == 0:
        print(r.stdout.rstrip())
        return "ok"
    if "Timeout (0:00:25)" in r.stderr:
        where = [ln.strip() for ln in r.stderr.splitlines() if "odc/geo" in ln]
        return "HANG: no result after 25 s; stuck at -> " + "; ".join(where[:2])
    return "FAILED:\n" + r.stderr[-800:]


results = {}
CASES = [
    # nodata, size, content, keyword arguments
    ("-9999", "100", "random", "dict(overview_levels=[2, 4])"),  # control: exactly representable in float32
    ("0.1", "100", "random", "dict(overview_levels=[2, 4])"),  # small image, explicit overview levels
    ("-9999", "1024", "ones", "dict()"),  # control
    ("0.1", "1024", "ones", "dict()"),  # ALL DEFAULT options, image with constant content
]
for nd, n, content, kw in CASES:
    key = f"to_cog(float32 {n}x{n} {content} image, nodata={nd}, **{kw})"
    print(key)
    results[key] = attempt(nd, n, content, kw)
    print("  ->", results[key])

print()
print("expected: every call returns a COG that reads back identically (as the nodata=-9999 controls do)")
bad = {k: v for k, v in results.items() if v != "ok"}
print("observed:", "all fine" if not bad else f"{len(bad)} call(s) did not produce a result:")
for k, v in bad.items():
    print("   ", k, "->", v[:60])
assert not bad, "to_cog did not return for float32 nodata values that are not exactly representable in float32"
