"""
C18 - S3 writers: the dask token / coordination name of a writer is (bucket, key) only.

Two DIFFERENT objects - same bucket and key on two different S3 endpoints (mirroring a COG to two
S3-compatible stores) - therefore
  (1) in-process: produce graphs with identical task keys, dask merges them and only ONE of the two
      objects is ever uploaded, although both results report success;
  (2) cluster-coordinated: share one distributed Variable ("MPUpload-<token>") and one Lock, so the
      second object's writer adopts the upload id that the FIRST object's endpoint issued.

Property C18: exactly one multi-part upload is initiated for the object and every part is uploaded
under that one upload id.  Observed: zero uploads initiated for the second object.
"""
import sys
import threading
import uuid

import dask
import dask.bag

from odc.geo.cog import _s3
from odc.geo.cog._s3 import MultiPartUpload

LOG = []
_lk = threading.Lock()


class FakeS3:
    """records calls; an upload id is only valid at the endpoint that issued it"""

    def __init__(self, endpoint):
        self.endpoint = endpoint

    def create_multipart_upload(self, Bucket, Key, **kw):
        uid = f"{self.endpoint}#{uuid.uuid4().hex[:8]}"
        with _lk:
            LOG.append(("create", self.endpoint, uid))
        return {"UploadId": uid}

    def upload_part(self, PartNumber, Body, Bucket, Key, UploadId):
        with _lk:
            LOG.append(("part", self.endpoint, UploadId, PartNumber))
        return {"ETag": f"etag-{PartNumber}"}

    def complete_multipart_upload(self, Bucket, Key, UploadId, MultipartUpload):
        with _lk:
            LOG.append(("complete", self.endpoint, UploadId))
        return {"ETag": "final"}


MultiPartUpload.s3_client = lambda self: FakeS3(self.endpoint_url)

EP_A, EP_B = "http://store-a:9000", "http://store-b:9000"
MB = 1 << 20
failures = []


def report(tag):
    for ep in (EP_A, EP_B):
        creates = [r for r in LOG if r[0] == "create" and r[1] == ep]
        parts = [r for r in LOG if r[0] == "part" and r[1] == ep]
        foreign = [r for r in parts if not r[2].startswith(ep)]
        completes = [r for r in LOG if r[0] == "complete" and r[1] == ep]
        print(
            f"{tag}: endpoint {ep}: expected 1 create / >=1 parts under its own id / 1 complete;"
            f" observed {len(creates)} create, {len(parts)} parts ({len(foreign)} under an id issued by the OTHER endpoint),"
            f" {len(completes)} complete"
        )
        if len(creates) != 1 or not parts or foreign or len(completes) != 1:
            failures.append(f"{tag}: {ep}: creates={len(creates)} parts={len(parts)} foreign={len(foreign)} completes={len(completes)}")


# ---------------------------------------------------------------- (1) in-process, threaded scheduler
def gen(i):
    return [(bytes([i]) * (6 * MB), i)]


def bag():
    return dask.bag.from_delayed([dask.delayed(gen)(i) for i in range(4)])


_s3._dask_client = lambda: None  # no cluster in this half
a = MultiPartUpload("bkt", "same/key.tif", endpoint_url=EP_A)
b = MultiPartUpload("bkt", "same/key.tif", endpoint_url=EP_B)
da = a.upload(bag(), spill_sz=5 * MB)
db = b.upload(bag(), spill_sz=5 * MB)
print("final task keys:", da.key, db.key, "(identical)" if da.key == db.key else "")
ra, rb = dask.compute(da, db, scheduler="threads")
print("results:", ra, rb)
report("in-process")

# ---------------------------------------------------------------- (2) cluster-coordinated
LOG.clear()
try:
    import logging

    from distributed import Client

    logging.getLogger("distributed").setLevel(logging.CRITICAL)
    from distributed import get_client as _gc

    def _real_dask_client():
        try:
            return _gc()
        except ValueError:
            return None

    _s3._dask_client = _real_dask_client
    with Client(
        n_workers=1, threads_per_worker=2, processes=False, dashboard_address=None, silence_logs=logging.CRITICAL
    ) as client:
        a = MultiPartUpload("bkt", "same/key2.tif", endpoint_url=EP_A)
        b = MultiPartUpload("bkt", "same/key2.tif", endpoint_url=EP_B)
        wa = a.writer({}, client=client)
        wb = b.writer({}, client=client)
        print("shared variable names:", wa._shared(client).name, wb._shared(client).name)
        pa = client.submit(lambda w: w(1, b"x" * 10), wa, pure=False).result()
        pb = client.submit(lambda w: w(1, b"y" * 10), wb, pure=False).result()
        client.submit(lambda w, p: w.finalise(p), wb, [pb], pure=False).result()
        client.submit(lambda w, p: w.finalise(p), wa, [pa], pure=False).result()
    report("cluster")
except ImportError:
    print("distributed not available, cluster half skipped")

if failures:
    print("\nFAIL:")
    for f in failures:
        print(" -", f)
    sys.exit(1)
print("OK")
