"""
A bounding-box / polygon query with the footprint of ONE tile returns a neighbouring tile as well.

Grid: EPSG:3857, origin at the bottom-left corner of the Web-Mercator world, pixel size of web zoom
level 10 (152.874.. m), tiles of 4000 x 4000 pixels.  All coordinates are inside the CRS (|x|,|y| < 2.004e7).

Contract: a query returns exactly the tiles whose footprint overlaps the query, edge contacts within
1e-8 units excluded; footprints of distinct tiles have disjoint interiors.  Querying with the
bounding box (or the extent polygon) of tile T must therefore return [T] and nothing else.
Oracle: exact rational arithmetic on the grid definition (tile i covers [o + i*s, o + (i+1)*s]).
"""
from fractions import Fraction as F

from odc.geo.gridspec import GridSpec
from odc.geo.types import resxy_, xy_

W = 20037508.342789244  # pi * 6378137
res = 152.8740565703525  # 2*W / 256 / 2**10
npix = 4000
gs = GridSpec("epsg:3857", (npix, npix), resxy_(res, -res), origin=xy_(-W, -W))
n = int(2 * W / (npix * res))  # 65 tiles per side fit into the world

bad_box, bad_poly, overlap = [], [], []
for iy in range(n):
    for ix in range(n):
        gbox = gs[ix, iy]
        assert max(abs(v) for v in gbox.boundingbox.bbox) < 2.01e7
        got = [idx for idx, _ in gs.tiles(gbox.boundingbox)]
        if got != [(ix, iy)]:
            bad_box.append(((ix, iy), got))
        got = [idx for idx, _ in gs.tiles_from_geopolygon(gbox.extent)]
        if got != [(ix, iy)]:
            bad_poly.append(((ix, iy), got))
        # interiors of x-neighbours
        a, b = gbox.boundingbox, gs[ix + 1, iy].boundingbox
        if a.right > b.left:
            overlap.append(((ix, iy), float(F(a.right) - F(b.left))))

total = n * n
print(f"tiles checked: {total}")
print(f"tiles(bbox of tile T) != [T]            : {len(bad_box)}   expected 0")
print(f"tiles_from_geopolygon(extent of T) != [T]: {len(bad_poly)}   expected 0")
print(f"x-neighbours with overlapping interiors  : {len(overlap)}   expected 0")
for (idx, got) in bad_box[:3]:
    bb = gs[idx].boundingbox
    print(f"  e.g. T={idx}: bbox {tuple(bb.bbox)}")
    print(f"       idx_bounds -> {gs.idx_bounds(bb)}, tiles -> {got}")
    ix = idx[0]
    x = bb.right - 1e-8
    exact_q = (F(x) - F(gs.origin.x)) / F(gs._xbin.sz)  # pylint: disable=protected-access
    print(
        f"       right - 1e-8 = {x!r}: exact (x - origin)/size = {float(exact_q):.17g} -> bin {exact_q.__floor__()},"
        f" Bin1D.bin -> {gs._xbin.bin(x)}"  # pylint: disable=protected-access
    )
for idx, ov in overlap[:3]:
    print(f"  e.g. footprints of {idx} and its right neighbour overlap by {ov:.3g} m")

assert not bad_box and not bad_poly, (
    f"{len(bad_box)} bbox queries and {len(bad_poly)} polygon queries with a single tile's footprint "
    f"returned more than that tile"
)
print("OK")
