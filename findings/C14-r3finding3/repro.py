"""C14: polygon query with an empty geometry crashes instead of returning no tiles.

An empty polygon (e.g. the result of an intersection that turned out empty)
overlaps no tile footprint, so the query must yield nothing.
"""
import traceback

import shapely.geometry as sg

from odc.geo import geom
from odc.geo.geom import Geometry
from odc.geo.gridspec import GridSpec

gs = GridSpec("epsg:3857", (10, 10), 0.1)

a = geom.box(0, 0, 1, 1, "epsg:3857")
b = geom.box(5, 5, 6, 6, "epsg:3857")
queries = {
    "intersection of two disjoint boxes": a & b,
    "Geometry(Polygon())": Geometry(sg.Polygon(), "epsg:3857"),
    "empty polygon in other CRS": Geometry(sg.Polygon(), "epsg:4326"),
}

bad = []
for name, q in queries.items():
    assert q.is_empty
    print(f"{name}: expected []")
    try:
        got = [idx for idx, _ in gs.tiles_from_geopolygon(q)]
        print(f"{name}: observed {got}")
        if got:
            bad.append(name)
    except Exception as e:  # pylint: disable=broad-except
        traceback.print_exc()
        print(f"{name}: observed {type(e).__name__}: {e}")
        bad.append(name)

assert not bad, f"empty query geometry did not give an empty tile list: {bad}"
