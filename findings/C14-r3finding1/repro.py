"""C14: polygon query returns tiles that only touch the query (corner / edge contact).

The property says a polygon query returns exactly the tiles whose footprint
*overlaps* the query, edge contacts excluded (that is what the bounding-box
query does via its 1e-8 tolerance).  GridSpec.tiles_from_geopolygon filters
with ``not disjoint`` which is also true for pure boundary contact.
"""
from odc.geo import geom
from odc.geo.gridspec import GridSpec

gs = GridSpec("epsg:3857", (10, 10), 0.1)  # 1x1 unit tiles, origin 0,0
assert gs.tile_size.xy == (1.0, 1.0)

failures = []


def check(name, poly):
    got = sorted(idx for idx, _ in gs.tiles_from_geopolygon(poly))
    # ground truth: tiles in the neighbourhood whose footprint shares area with the query
    expect = []
    for ix in range(-2, 5):
        for iy in range(-2, 5):
            ext = gs[ix, iy].extent
            if poly.intersection(ext).area > 0:
                expect.append((ix, iy))
    expect = sorted(expect)
    print(f"{name}: expected {expect}")
    print(f"{name}: observed {got}")
    for idx in got:
        if idx not in expect:
            ext = gs[idx].extent
            print(
                f"   tile {idx}: touches={poly.touches(ext)} "
                f"overlap area={poly.intersection(ext).area}"
            )
    if got != expect:
        failures.append(name)


# triangle: hypotenuse passes through (1,1), the corner of tile (1,1)
check("triangle", geom.polygon([(0, 0), (2, 0), (0, 2), (0, 0)], "epsg:3857"))
# L-shape: tile (1,1) shares two full edges with the query but no area
check(
    "L-shape",
    geom.polygon(
        [(0, 0), (2, 0), (2, 1), (1, 1), (1, 2), (0, 2), (0, 0)], "epsg:3857"
    ),
)
# for reference the same kind of contact is excluded by the bbox query
bb = sorted(idx for idx, _ in gs.tiles(geom.box(0, 0, 1, 1, "epsg:3857").boundingbox))
print("bbox query of tile (0,0) footprint ->", bb)
assert bb == [(0, 0)]

assert not failures, f"tiles with only edge/corner contact were returned for: {failures}"
