"""
C09 finding 1: slicing a GCP-registered DataArray down to a single row and/or a
single column silently resets the pixel-plane offset of the recovered GCPGeoBox
to identity, so the remaining pixels are mapped to the world location of
row 0 / column 0 of the original raster.
"""
import pickle
import warnings

import numpy as np
from affine import Affine

from odc.geo.gcp import GCPGeoBox, GCPMapping
from odc.geo.xr import xr_zeros

warnings.simplefilter("ignore")

# GCPs laid over a 40x60 raster (slightly non-linear mapping, EPSG:4326)
A = Affine.translation(10, 50) * Affine.rotation(20) * Affine.scale(0.01, -0.01)
ny, nx = 40, 60
py, px = np.meshgrid(np.linspace(0, ny, 5), np.linspace(0, nx, 6), indexing="ij")
px, py = px.ravel(), py.ravel()
wx, wy = A * (px, py)
wx = wx + 1e-4 * (px / nx) ** 2
mapping = GCPMapping(np.stack([px, py], 1), np.stack([wx, wy], 1), "epsg:4326")
gbox = GCPGeoBox((ny, nx), mapping)


def pixel_centres_world(g):
    h, w = g.shape
    yy, xx = np.meshgrid(np.arange(h) + 0.5, np.arange(w) + 0.5, indexing="ij")
    return np.stack(g.pix2wld(xx.ravel(), yy.ravel())).reshape(2, h, w)


ref = pixel_centres_world(gbox)
xx = xr_zeros(gbox, "float32")
assert xx.odc.geobox == gbox

bad = []
for roi in [
    np.s_[5:20, 10:30],  # control: works
    np.s_[::2, ::-3],  # control: works
    np.s_[3:4, :],  # single row
    np.s_[:, 7:8],  # single column
    np.s_[3:4, 7:8],  # single pixel
    np.s_[30:31, ::2],  # single row + stride
]:
    yy = pickle.loads(pickle.dumps((xx[roi] * 2).astype("int16")))
    got_gbox = yy.odc.geobox
    expect = ref[(slice(None),) + roi]
    got = pixel_centres_world(got_gbox)
    err = float(np.abs(got - expect).max())
    ydim, xdim = yy.odc.spatial_dims
    print(
        f"roi={roi!s:60} labels y={yy[ydim].values[:2]} x={yy[xdim].values[:2]} "
        f"recovered affine={tuple(got_gbox._affine)[:6]} max world error={err:.6f} deg"
    )
    if err > 1e-9:
        bad.append((roi, err))

print()
print("EXPECTED: every remaining pixel keeps the world location it had in the original (error ~0)")
print(f"OBSERVED: {len(bad)} slices moved: {bad}")
assert not bad, "GCP geobox of single-row/column slice points at the wrong place"
