"""
C20 finding 2: Poly2d.with_input_transform silently drops small rotation/shear
terms of the input transform.

Property clause: "affine and 2-D polynomial fits reproduce exactly representable
mappings (and compose correctly with an input transform)".

q = p.with_input_transform(T) must satisfy q(x) == p(T*x).  For an image sized
10_000 x 10_000 px and T = rotation by 0.1 degree the result is off by ~170 m
(17 pixels of 10 m); rotation by 0.5 degree is handled correctly.
"""
import sys
import warnings

import numpy as np
from affine import Affine

from odc.geo.math import Poly2d, quasi_random_r2

warnings.simplefilter("ignore")

aa = quasi_random_r2(16, (10_000, 10_000)).astype("float64")  # pixel coords
M = Affine.translation(500_000, 6_000_000) * Affine.scale(10, -10)  # exactly representable mapping
bb = np.stack(M * (aa[:, 0], aa[:, 1]), axis=1)

p = Poly2d.fit(aa, bb)
fit_err = np.abs(p(aa) - bb).max()
print("plain fit error               :", fit_err)
assert fit_err < 1e-6

worst = 0.0
for ang in [0.5, 0.1, 0.05, 0.01, 0.001]:
    T = Affine.rotation(ang)
    q = p.with_input_transform(T)
    # points x such that T*x == aa, so expected q(x) == p(aa) == bb
    ix, iy = (~T) * (aa[:, 0], aa[:, 1])
    got = q(np.stack([ix, iy], axis=1))
    err = np.abs(got - bb).max()
    worst = max(worst, err)
    print(
        f"rotation {ang:6} deg: expected max|q(x) - p(T*x)| ~ 1e-9, observed {err:.6g} "
        f"(world units; pixel is 10)   [_safe_to_grid={q._safe_to_grid}]"
    )

if worst > 1e-3:
    print("FAIL: with_input_transform does not compose correctly with a slightly rotated transform")
    sys.exit(1)
print("OK")
