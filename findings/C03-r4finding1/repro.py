"""
C03: reported scale / read_shrink collapse when the overlap sits ~1e8 pixels away
from the origin of the destination GeoBox (e.g. world-wide web-mercator grid at
zoom >= 19).  Regions are still right, scale is off by five orders of magnitude.

run:  PYTHONPATH=/tmp/seed/C03 /venv/bin/python repro.py
"""
import math
import sys
import warnings

warnings.simplefilter("ignore")

import numpy as np
import pyproj
from affine import Affine

from odc.geo.geobox import GeoBox
from odc.geo.overlap import compute_reproject_roi

W = 20037508.342789244  # half width of the web-mercator world
T_dst2src = pyproj.Transformer.from_crs(3857, 32633, always_xy=True)
T_ll2dst = pyproj.Transformer.from_crs(4326, 3857, always_xy=True)


def oracle_scale(src, dst, roi_dst):
    """pixel-size ratio dst/src per destination axis at the centre of roi_dst (pyproj point transforms)."""
    dy, dx = roi_dst
    cx, cy = (dx.start + dx.stop) / 2, (dy.start + dy.stop) / 2
    px = np.array([cx - 1, cx + 1, cx, cx])
    py = np.array([cy, cy, cy - 1, cy + 1])
    D, S = dst.transform, ~src.transform
    wx, wy = D.a * px + D.b * py + D.c, D.d * px + D.e * py + D.f
    sx, sy = T_dst2src.transform(wx, wy)
    qx, qy = S.a * sx + S.b * sy + S.c, S.d * sx + S.e * sy + S.f
    ex = math.hypot(qx[1] - qx[0], qy[1] - qy[0]) / 2
    ey = math.hypot(qx[3] - qx[2], qy[3] - qy[2]) / 2
    return ex, ey


def case(zoom):
    n = 256 * 2**zoom  # pixels across the world at this zoom level
    res = 2 * W / n
    dst = GeoBox((n, n), Affine(res, 0, -W, 0, -res, W), "EPSG:3857")

    # 1000x1000 UTM 33N image at 15E 45N with pixels 3x finer than the destination
    lon, lat = 15.0, 45.0
    cx, cy = T_ll2dst.transform(lon, lat)
    ux, uy = T_dst2src.transform(cx, cy)
    sres = res / 3.0 * math.cos(math.radians(lat))
    src = GeoBox((1000, 1000), Affine(sres, 0, ux - 500 * sres, 0, -sres, uy + 500 * sres), "EPSG:32633")

    ri = compute_reproject_roi(src, dst)
    ex, ey = oracle_scale(src, dst, ri.roi_dst)
    expect = min(ex, ey)

    # same destination pixels addressed through a crop (small pixel coordinates)
    dy, dx = ri.roi_dst
    ri_crop = compute_reproject_roi(src, dst[dy.start : dy.stop, dx.start : dx.stop])

    print(f"zoom {zoom}: dst shape {n}x{n}, overlap roi_dst={ri.roi_dst}")
    print(f"   expected scale (pyproj central differences at overlap centre): {expect:.6f}  per-axis=({ex:.6f}, {ey:.6f})")
    print(f"   observed scale: {ri.scale:.6f}  scale2=({ri.scale2.x:.6f}, {ri.scale2.y:.6f})  read_shrink={ri.read_shrink}")
    print(f"   same pixels via dst[roi_dst]: scale={ri_crop.scale:.6f} read_shrink={ri_crop.read_shrink}")
    ok = abs(ri.scale - expect) <= 1e-3 * expect and ri.read_shrink == ri_crop.read_shrink
    return ok


results = {z: case(z) for z in (18, 19, 20)}
bad = [z for z, ok in results.items() if not ok]
if bad:
    print(f"FAIL: scale/read_shrink wrong for world grid at zoom {bad} (fine at zoom {[z for z in results if z not in bad]})")
    sys.exit(1)
print("OK")
