"""C07 finding 3: to_crs() crashes for any Geometry built from a shapely object that has Z coordinates.

Expected: Geometry documents itself as "2D Geometry with CRS ... If 3D coordinates
are supplied, they are converted to 2D by dropping the Z points", and
Geometry.transform() documents support for x, y and optionally z.  So a Geometry
wrapping e.g. LINESTRING Z (as produced by fiona/geopandas/shapely.from_wkt for
many real-world files) must reproject: every vertex mapped like pyproj maps its
(x, y), same type, same number of vertices.

Observed: the Z dropping only happens for GeoJSON-dict input; a shapely input is
stored as is, segmented() even interpolates Z, and to_crs() dies with
  TypeError: CRS.transformer_to_crs.<locals>.result() takes 2 positional arguments but 3 were given
because shapely.ops.transform calls the transformer with (x, y, z).
"""
import sys

import pyproj
from shapely import geometry as sg
from shapely import wkt

from odc.geo.geom import Geometry

tr = pyproj.Transformer.from_crs(4326, 3857, always_xy=True)

shapes = {
    "Point Z": sg.Point(10, 20, 5),
    "LineString Z": sg.LineString([(0, 0, 5), (3, 1, 7), (4, 4, 9)]),
    "Polygon Z (from WKT)": wkt.loads("POLYGON Z ((0 0 1, 3 0 1, 3 3 1, 0 0 1))"),
}

# same thing via GeoJSON works (Z dropped up front)
g2d = Geometry({"type": "LineString", "coordinates": [(0, 0, 5), (3, 1, 7), (4, 4, 9)]}, "EPSG:4326")
print("reference (GeoJSON input, Z dropped):", g2d.to_crs("EPSG:3857").wkt)

failed = 0
for name, shp in shapes.items():
    g = Geometry(shp, "EPSG:4326")
    for kw in ({}, {"resolution": 1}):
        label = f"{name}.to_crs(3857{', resolution=1' if kw else ''})"
        try:
            out = g.to_crs("EPSG:3857", **kw)
        except Exception as e:  # pylint: disable=broad-except
            failed += 1
            print(f"FAIL  {label}\n      expected: {shp.geom_type} in EPSG:3857 with x,y == pyproj(x,y)")
            print(f"      observed: {type(e).__name__}: {e}")
            continue
        assert out.geom_type == shp.geom_type
        if not kw and shp.geom_type != "Polygon":
            for src, dst in zip(shp.coords, out.geom.coords):
                assert tuple(dst[:2]) == tr.transform(src[0], src[1]), (src, dst)
        print(f"ok    {label} -> {out.wkt[:70]}")

if failed:
    print(f"{failed} calls crashed")
    sys.exit(1)
print("all fine")
