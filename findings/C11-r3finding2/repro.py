"""
C11: the output GeoBox "contains the projected position of every source pixel up to the stated
tolerance fraction of an output pixel".

For a source GeoBox whose X *and* Y pixel sizes are both negative (e.g. ``north_up.flipx()``:
X axis mirrored, Y axis the usual north-up negative) GeoBoxBase.footprint computes the buffer as
``0.9 * max(res.x, res.y)`` which is a NEGATIVE number, so instead of growing the footprint by 0.9 of a
source pixel it SHRINKS it by 0.9 pixel on every side before projecting.  The resulting output grid
leaves the outer source pixels (their centres, not only their edges) outside.
"""
import sys
import warnings

import numpy as np

warnings.filterwarnings("ignore")

from odc.geo.geobox import GeoBox
from odc.geo.overlap import compute_output_geobox


def margins(src, dst, centres):
    """how far (in output pixels) the projected source pixels are inside dst: left,right,top,bottom."""
    ny, nx = src.shape
    o = 0.5 if centres else 0.0
    xs = np.unique(np.concatenate([np.arange(0, nx + (0 if centres else 1), max(1, nx // 200)), [nx - (1 if centres else 0)]])) + o
    ys = np.unique(np.concatenate([np.arange(0, ny + (0 if centres else 1), max(1, ny // 200)), [ny - (1 if centres else 0)]])) + o
    X, Y = np.meshgrid(xs, ys)
    wx, wy = src.transform * (X.ravel(), Y.ravel())
    px, py = src.crs.transformer_to_crs(dst.crs)(wx, wy)
    ix, iy = (~dst.transform) * (np.asarray(px), np.asarray(py))
    H, W = dst.shape
    return np.array([ix.min(), W - ix.max(), iy.min(), H - iy.max()])


north_up = GeoBox.from_bbox((500_000, 5_990_000, 510_000, 6_000_000), "epsg:32633", resolution=10)
mirrored = north_up.flipx()  # covers exactly the same ground, resolution (-10, -10)
print("north-up :", north_up.resolution, " mirrored:", mirrored.resolution)
print("footprint area in EPSG:3857 with buffer=0.9 : north-up %.0f, mirrored %.0f, no buffer %.0f" % (
    north_up.footprint("epsg:3857", buffer=0.9).area,
    mirrored.footprint("epsg:3857", buffer=0.9).area,
    north_up.footprint("epsg:3857").area))

bad = []
for crs in ("epsg:3857", "epsg:4326", "epsg:32634", "epsg:6933"):
    for tight in (False, True):
        tol = 0.01
        ref = compute_output_geobox(north_up, crs, tight=tight, tol=tol)
        dst = compute_output_geobox(mirrored, crs, tight=tight, tol=tol)
        m_ref = margins(north_up, ref, centres=True)
        m = margins(mirrored, dst, centres=True)
        print(f"{crs:11s} tight={tight!s:5s} north-up: shape={tuple(ref.shape)} min margin of pixel CENTRES={m_ref.min():+.3f}px |"
              f" mirrored: shape={tuple(dst.shape)} min margin of pixel CENTRES={m.min():+.3f}px")
        assert m_ref.min() >= -tol, "sanity: the north-up twin must be enclosed"
        if m.min() < -tol:
            bad.append((crs, tight, float(m.min())))

if bad:
    print("EXPECTED: every projected source pixel inside the output GeoBox (margin >= -tol = -0.01 px)")
    print("OBSERVED: source pixel centres outside the output GeoBox for the mirrored source:")
    for b in bad:
        print("    crs=%s tight=%s worst margin %.3f output pixels" % b)
    sys.exit(1)
print("OK")
