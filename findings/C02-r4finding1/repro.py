"""
C02 / GCPGeoBox: control points that are EXACTLY affinely related must give a pixel<->world
mapping that is exactly that affine map.  When 9 or more control points sit on the image
border (or on two rows / two columns only) the fitted mapping reproduces every control
point but is tens to hundreds of pixels off inside the image.

run:  PYTHONPATH=/tmp/seed/C02 /venv/bin/python repro.py
"""
import sys
import warnings

warnings.filterwarnings("ignore")

import numpy as np
from affine import Affine

from odc.geo.gcp import GCPGeoBox, GCPMapping

ny, nx = 1000, 2000
# plain north-up 10 m UTM grid: the "truth" every control point is computed from
A = Affine(10.0, 0.0, 500_000.0, 0.0, -10.0, 6_000_000.0)


def truth(pix):
    pix = np.asarray(pix, dtype="float64")
    return np.stack([A.a * pix[:, 0] + A.b * pix[:, 1] + A.c, A.d * pix[:, 0] + A.e * pix[:, 1] + A.f], axis=1)


layouts = {
    # control points along the image border only, not evenly spread
    "border (17 GCPs: top edge every 250px, right edge every 200px, 3 on the bottom edge)": (
        [(x, 0) for x in range(0, nx + 1, 250)]
        + [(nx, y) for y in range(200, ny + 1, 200)]
        + [(0, ny), (700, ny), (1500, ny)]
    ),
    # control points on the top and bottom rows only
    "two rows (2 x 11 grid)": [(x, y) for y in (0, ny) for x in np.linspace(0, nx, 11)],
    # control points on the left and right columns only
    "two columns (21 x 2 grid)": [(x, y) for y in np.linspace(0, ny, 21) for x in (0, nx)],
}

# interior probe points (pixel coordinates)
probe = np.array([(nx * a, ny * b) for a in (0.1, 0.25, 0.5, 0.8) for b in (0.2, 0.5, 0.7)], dtype="float64")
TOL_PX = 1e-3  # generous: float noise is ~1e-10 px here

failed = False
for name, pix in layouts.items():
    pix = np.array(pix, dtype="float64")
    wld = truth(pix)
    gbox = GCPGeoBox((ny, nx), GCPMapping(pix, wld, "epsg:32633"))

    at_gcps = np.abs(np.array(gbox.pix2wld(pix[:, 0], pix[:, 1])).T - wld).max() / 10.0
    w_exp = truth(probe)
    w_got = np.array(gbox.pix2wld(probe[:, 0], probe[:, 1])).T
    p2w_err = np.abs(w_got - w_exp).max() / 10.0  # in pixels (10 m pixels)
    p_got = np.array(gbox.wld2pix(w_exp[:, 0], w_exp[:, 1])).T
    w2p_err = np.abs(p_got - probe).max()
    bb = gbox.boundingbox
    bb_exp = (A.c, A.f + A.e * ny, A.c + A.a * nx, A.f)
    bb_err = np.abs(np.array(tuple(bb)) - np.array(bb_exp)).max() / 10.0

    print(f"layout: {name}")
    print(f"   control points reproduced to        : {at_gcps:.3g} px")
    print(f"   expected pix2wld/wld2pix error      : < {TOL_PX} px (control points are exactly affine)")
    print(f"   observed pix2wld error inside image : {p2w_err:.3g} px")
    print(f"   observed wld2pix error inside image : {w2p_err:.3g} px")
    print(f"   observed bounding box error         : {bb_err:.3g} px")
    i = int(np.abs(w_got - w_exp).max(axis=1).argmax())
    print(f"   e.g. pixel {tuple(map(float, probe[i]))} -> {tuple(map(float, w_got[i]))}, expected {tuple(map(float, w_exp[i]))}")
    # independent oracle: GDAL's affine fit through the very same control points (as handed out by .gcps())
    from rasterio.transform import from_gcps

    A_gdal = from_gcps(gbox.gcps())
    gdal_err = max(abs(a - b) for a, b in zip(tuple(A_gdal)[:6], tuple(A)[:6]))
    print(f"   (rasterio.transform.from_gcps on gbox.gcps() recovers the affine to {gdal_err:.3g})")
    if p2w_err > TOL_PX or w2p_err > TOL_PX:
        failed = True

if failed:
    print("FAIL: GCPGeoBox with exactly affine control points does not reproduce the affine mapping")
    sys.exit(1)
print("OK")
