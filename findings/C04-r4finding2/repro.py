"""
C04: regular tiling (Tiles) of an empty rectangle / cropped to an empty block of tiles.

A tiling of a rectangle with a zero-length side is a legal object: Tiles((0, 4), (3, 2)) and
Tiles.crop(np.s_[1:1, :]) both construct fine and report shape == (0, 2) tiles and base == (0, 4),
GeoBox((0, N)) is a legal geobox (gbox[0:0, :]) and GeoboxTiles accepts it.
The variable-size implementation of the very same partition answers every question about it
(chunks == ((), (2, 2)), [:, :] == (0:0, 0:4), crop[:, :] == itself).
The regular implementation crashes with IndexError on the advertised chunk tuples and on the
"everything" selection, so the two tilings of one rectangle disagree and
`crop -> chunks` (what _dask_rio_reproject does with GeoboxTiles(dst, (ny, nx)).chunks) blows up.
"""
import sys

import numpy as np
from affine import Affine

from odc.geo.geobox import GeoBox, GeoboxTiles
from odc.geo.roi import Tiles, VariableSizedTiles, roi_shape

failures = []


def check(label, f, expected):
    try:
        got = f()
    except Exception as e:  # pylint: disable=broad-except
        got = f"{type(e).__name__}: {e}"
    ok = got == expected
    print(f"{'ok  ' if ok else 'FAIL'} {label}\n       expected: {expected}\n       observed: {got}")
    if not ok:
        failures.append(label)


# reference: the variable sized implementation on the same inputs
var = VariableSizedTiles(((3, 3), (2, 2)))
var_e = var.crop(np.s_[1:1, :])
assert (var_e.shape.yx, var_e.base.yx) == ((0, 2), (0, 4))
check("VariableSizedTiles crop[1:1, :] .chunks", lambda: var_e.chunks, ((), (2, 2)))
check("VariableSizedTiles crop[1:1, :] [:, :]", lambda: var_e[:, :], (slice(0, 0), slice(0, 4)))

# regular tiling of the same 6x4 rectangle, cropped to the same (empty) block of tile rows
reg = Tiles((6, 4), (3, 2))
reg_e = reg.crop(np.s_[1:1, :])  # succeeds
assert (reg_e.shape.yx, reg_e.base.yx) == ((0, 2), (0, 4))
check("Tiles crop[1:1, :] .chunks", lambda: reg_e.chunks, ((), (2, 2)))
check("Tiles crop[1:1, :] [:, :]", lambda: reg_e[:, :], (slice(0, 0), slice(0, 4)))
check(
    "Tiles crop[1:1, :] .crop([:, :]) is the same tiling",
    lambda: reg_e.crop(np.s_[:, :]) == reg_e,
    True,
)
check("Tiles((0, 4), (3, 2)).chunks", lambda: Tiles((0, 4), (3, 2)).chunks, ((), (2, 2)))
check(
    "sum of Tiles((0, 0), (3, 2)).chunks == base",
    lambda: tuple(map(sum, Tiles((0, 0), (3, 2)).chunks)),
    (0, 0),
)

# same through GeoboxTiles
gbox = GeoBox((6, 4), Affine(10, 0, 0, 0, -10, 0), "epsg:3857")
gbt = GeoboxTiles(gbox, (3, 2))
gbt_e = gbt.crop[1:1, :]  # succeeds
assert gbt_e.base.shape == (0, 4) and gbt_e.shape == (0, 2)
check("GeoboxTiles(regular).crop[1:1, :].chunks", lambda: gbt_e.chunks, ((), (2, 2)))
check(
    "GeoboxTiles(gbox[0:0, :], (3, 2)).chunks",
    lambda: GeoboxTiles(gbox[0:0, :], (3, 2)).chunks,
    ((), (2, 2)),
)
check(
    "GeoboxTiles(gbox[0:0, :], (3, 2))[:, :] is the (empty) base",
    lambda: GeoboxTiles(gbox[0:0, :], (3, 2))[:, :] == gbox[0:0, :],
    True,
)

print()
if failures:
    print(f"{len(failures)} checks failed: regular Tiles cannot describe an empty rectangle it has itself produced")
    sys.exit(1)
print("OK")
