"""
Slice offsets that lie past the END of the axis are legal numpy (they clamp to
the length), but the ROI helpers never clamp them:
  roi_is_full says "not full" for a selection that is the whole array,
  roi_normalise returns a "normalised" slice whose roi_shape / roi_is_empty
  disagree with X[s], and roi_pad returns a region outside (0 -> n).
(offsets past the START are clamped, that side was repaired earlier)
"""
import itertools

import numpy as np

from odc.geo.roi import roi_is_empty, roi_is_full, roi_normalise, roi_pad, roi_shape

bad = {"full": [], "shape": [], "empty": [], "pad": []}
total = 0
for n in (5, 1, 2, 3, 4, 6, 7, 0):
    X = np.arange(n)
    offs = [None, *range(0, n + 4)]  # non-negative offsets only
    for a, b in itertools.product(offs, offs):
        s = slice(a, b)
        total += 1
        want = X[s]
        ns = roi_normalise(s, n)
        assert list(X[ns]) == list(want)  # this part of the contract holds

        full = roi_is_full(s, n)
        if full != (want.shape == X.shape):
            bad["full"].append((n, s, f"roi_is_full={full}", f"X[s].shape={want.shape}"))

        if roi_shape(ns) != want.shape:
            bad["shape"].append((n, s, ns, f"roi_shape={roi_shape(ns)}", f"X[s].shape={want.shape}"))

        if roi_is_empty(ns) != (want.size == 0):
            bad["empty"].append((n, s, ns, f"roi_is_empty={roi_is_empty(ns)}", f"X[s].size={want.size}"))

        p = roi_pad(s, 1, n)  # documented: "guaranteed to be within (0,..) -> shape"
        if not (0 <= p.start <= n and 0 <= p.stop <= n):
            bad["pad"].append((n, s, f"roi_pad(s, 1, n)={p}"))

print(f"checked {total} (length, slice) combinations with non-negative offsets")
for k, v in bad.items():
    print(f"{k}: {len(v)} disagreements with numpy; first few:")
    for m in v[:4]:
        print("    ", m)

print()
print("headline case: X = np.arange(10)")
print("  X[0:20].shape == X.shape ->", np.arange(10)[0:20].shape == (10,), " (numpy: selection is the full array)")
print("  roi_is_full(s_[0:20], 10) ->", roi_is_full(np.s_[0:20], 10), " (expected True)")
print("  roi_shape(roi_normalise(s_[5:20], 10)) ->", roi_shape(roi_normalise(np.s_[5:20], 10)), " (expected (5,))")
print("  roi_is_empty(roi_normalise(s_[15:20], 10)) ->", roi_is_empty(roi_normalise(np.s_[15:20], 10)), " (expected True)")
print("  roi_pad(s_[12:14], 1, 10) ->", roi_pad(np.s_[12:14], 1, 10), " (expected to stay within 0..10)")

assert roi_is_full(np.s_[0:20], 10) is True, "roi_is_full(s_[0:20], 10) must be True: X[0:20] is all of X"
assert not any(bad.values())
