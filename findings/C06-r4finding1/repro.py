"""
C06 - the graph returned by mpu_write() is not re-runnable: computing the same
Delayed a second time (re-run of a notebook cell, retry after a transient writer
error, ...) hands the writer a byte stream in which chunks are duplicated.

run:  PYTHONPATH=/tmp/seed/C06 /venv/bin/python repro.py
"""
import os
import sys
import tempfile

import dask.bag as db

from odc.geo.cog._mpu import mpu_write
from odc.geo.cog._mpu_fs import MPUFileSink

HEADER = b"<HDR>"
chunks = [(bytes([65 + i]) * 40, i) for i in range(6)]  # A*40, B*40 ... F*40
expected = HEADER + b"".join(d for d, _ in chunks)
expected_observed = [(len(d), i) for d, i in chunks]
seen = []


def mk_header(observed):
    seen.append(list(observed))
    return HEADER


def summary(bb: bytes) -> str:
    # run-length summary of the payload, e.g.  <HDR> A*40 B*40 ...
    out, i = [], 0
    while i < len(bb):
        j = i
        while j < len(bb) and bb[j] == bb[i]:
            j += 1
        out.append(f"{chr(bb[i])}*{j - i}")
        i = j
    return " ".join(out)


failures = []

# ---------------------------------------------------------------- scenario 1
# compute the same Delayed twice
tmp = tempfile.mkdtemp()
dst = os.path.join(tmp, "out.bin")
bag = db.from_sequence(chunks, npartitions=3)  # 2 chunks per partition
rr = mpu_write(bag, MPUFileSink(dst, min_write_sz=16), mk_header=mk_header, spill_sz=16)

for attempt in (1, 2):
    if os.path.exists(dst):
        os.unlink(dst)
    try:
        rr.compute(scheduler="synchronous")
    except Exception as e:  # pylint: disable=broad-except
        print(f"[compute #{attempt}] BAD raised {type(e).__name__}: {e!r} (expected: same file as compute #1)")
        failures.append(f"compute #{attempt} of the same Delayed raised {type(e).__name__}")
        continue
    got = open(dst, "rb").read()
    ok = got == expected and seen[-1] == expected_observed
    print(f"[compute #{attempt}] {'OK ' if ok else 'BAD'} {len(got)} bytes (expected {len(expected)})")
    print(f"    expected: {summary(expected)}")
    print(f"    observed: {summary(got)}")
    print(f"    header callback saw {len(seen[-1])} (size, id) entries, expected {len(expected_observed)}")
    if not ok:
        failures.append(f"compute #{attempt} of the same Delayed wrote {len(got)} bytes instead of {len(expected)}")


# ---------------------------------------------------------------- scenario 2
# first compute dies with a transient writer error, user retries the same Delayed
class FlakySink(MPUFileSink):
    fail_next = True

    def __call__(self, part, data):
        if FlakySink.fail_next:
            FlakySink.fail_next = False
            raise OSError("transient I/O error (simulated)")
        return super().__call__(part, data)


dst2 = os.path.join(tmp, "out2.bin")
rr2 = mpu_write(
    db.from_sequence(chunks, npartitions=3),
    FlakySink(dst2, min_write_sz=16),
    mk_header=mk_header,
    spill_sz=16,
)
try:
    rr2.compute(scheduler="synchronous")
    print("[retry] first compute unexpectedly succeeded")
except OSError as e:
    print(f"[retry] first compute failed as arranged: {e}")
try:
    rr2.compute(scheduler="synchronous")
    got2 = open(dst2, "rb").read()
except Exception as e:  # pylint: disable=broad-except
    print(f"[retry] retry raised {type(e).__name__}: {e!r}")
    got2 = b""
ok2 = got2 == expected
print(f"[retry] {'OK ' if ok2 else 'BAD'} retry wrote {len(got2)} bytes (expected {len(expected)})")
print(f"    expected: {summary(expected)}")
print(f"    observed: {summary(got2)}")
if not ok2:
    failures.append(f"retry after a transient writer error wrote {len(got2)} bytes instead of {len(expected)}")

if failures:
    print("\nFAIL:")
    for f in failures:
        print("  -", f)
    sys.exit(1)
print("all good")
