"""
C02: zoom_to(<int>) -- "When supplied a single integer scale longest dimension to
match that", "GeoBox covering the same region but with different number of
pixels".

compute_zoom_to(int) computes factor=nmax/shape and then compute_zoom_out does
ceil(N / factor).  N / (N / n) is frequently a hair above n in floating point,
so ceil() yields n+1: the longest side is NOT the requested size and the
zoomed geobox sticks out past the source footprint by a whole (big) pixel.
Same ceil-of-float problem in zoom_out(0.7) on a 21 pixel wide geobox (31, not 30).
"""
from affine import Affine

from odc.geo.geobox import GeoBox

src = GeoBox((50, 100), Affine.translation(300_000, 6_000_000) * Affine.scale(10, -10), "epsg:32633")
dst = src.zoom_to(29)

print("source           :", src.shape, tuple(src.boundingbox))
print("zoom_to(29)      :", dst.shape, tuple(dst.boundingbox))
print("expected longest side 29 and same bounding box (up to rounding of the short side)")

# S2-sized example
s2 = GeoBox((5490, 10980), Affine.translation(300_000, 6_000_000) * Affine.scale(10, -10), "epsg:32633")
z2 = s2.zoom_to(81)
print("10980 wide zoom_to(81):", z2.shape, "right edge", z2.boundingbox.right, "vs source", s2.boundingbox.right)

zo = GeoBox((21, 21), Affine.scale(1, -1), None).zoom_out(0.7)
print("21x21 zoom_out(0.7): expected 30x30 observed", zo.shape)

assert max(dst.shape) == 29, f"zoom_to(29) returned longest side {max(dst.shape)}"
assert abs(dst.boundingbox.right - src.boundingbox.right) < 1e-6, "zoomed geobox does not cover the same region"
