"""
C06 finding 1: part number 1 is hard-coded for the header / left-data / single-part
write, ignoring the writer's ``min_part``.

mpu_write() allocates data part ids starting at ``write.min_part + 1`` (so that
``write.min_part`` is free for the header / left-over bytes), but the finaliser
then writes that first part with the literal id ``1``:

   * min_part == 0  -> data parts are 1,2,3..., header part is ALSO 1  -> duplicate id
                       (with MPUFileSink the first data part file is overwritten: data loss)
   * min_part  > 1  -> part 1 is below the writer's allowed range

Property C06: "Part numbers are unique, lie within the writer's allowed range ...
whatever the ... writer limits".
"""
import sys
import tempfile
from pathlib import Path

import dask.bag as bag

from odc.geo.cog._mpu import mpu_write
from odc.geo.cog._mpu_fs import MPUFileSink


class MemWriter:
    def __init__(self, **limits):
        self.calls = []
        self.final = None
        self._l = limits

    def __call__(self, part, data):
        self.calls.append((part, bytes(data)))
        return {"PartNumber": part}

    def finalise(self, parts):
        self.final = list(parts)
        return self

    min_write_sz = property(lambda s: s._l.get("min_write_sz", 10))
    max_write_sz = property(lambda s: s._l.get("max_write_sz", 1 << 30))
    min_part = property(lambda s: s._l.get("min_part", 1))
    max_part = property(lambda s: s._l.get("max_part", 10_000))


chunks = [(bytes([65 + i]) * 30, i) for i in range(3)]  # 3 chunks of 30 bytes
payload = b"".join(d for d, _ in chunks)
HDR = b"HEADER--"
problems = []

# ---- case 1: min_part = 5  (allowed range is [5, 10000]) ----------------------
w = MemWriter(min_part=5, min_write_sz=10)
mpu_write(bag.from_sequence(chunks, npartitions=3), w, spill_sz=10).compute(
    scheduler="synchronous"
)
ids = [p for p, _ in w.calls]
print(f"[min_part=5] expected: all part ids within [5, 10000]; observed part ids: {ids}")
if not all(w.min_part <= p <= w.max_part for p in ids):
    problems.append(f"min_part=5: part ids {ids} outside [{w.min_part}, {w.max_part}]")

# ---- case 2: min_part = 0  (zero based part numbering), with a header ---------
w = MemWriter(min_part=0, min_write_sz=10)
mpu_write(
    bag.from_sequence(chunks, npartitions=3),
    w,
    spill_sz=10,
    mk_header=lambda observed: HDR,
).compute(scheduler="synchronous")
ids = [p for p, _ in w.calls]
print(f"[min_part=0] expected: unique part ids; observed part ids: {ids}")
if len(set(ids)) != len(ids):
    problems.append(f"min_part=0: duplicate part ids {ids}")

# ---- case 3: same thing with the library's own file sink: bytes are lost ------
with tempfile.TemporaryDirectory() as tmp:
    dst = Path(tmp) / "out.bin"
    sink = MPUFileSink(dst, min_part=0, min_write_sz=10)
    try:
        mpu_write(
            bag.from_sequence(chunks, npartitions=3),
            sink,
            spill_sz=10,
            mk_header=lambda observed: HDR,
        ).compute(scheduler="synchronous")
        got = dst.read_bytes()
    except Exception as e:  # pylint: disable=broad-except
        got = f"<crash {type(e).__name__}: {e}>".encode()
    print(f"[MPUFileSink min_part=0] expected {len(HDR + payload)} bytes: {HDR + payload!r}")
    print(f"[MPUFileSink min_part=0] observed {len(got)} bytes: {got!r}")
    if got != HDR + payload:
        problems.append("MPUFileSink(min_part=0): output file differs from header+chunks")

if problems:
    print("\nVIOLATIONS:")
    for p in problems:
        print("  -", p)
    sys.exit(1)
print("OK")
