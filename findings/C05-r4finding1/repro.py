"""
C05: save_cog_with_dask(..., compression="none") never produces a file.
 - when any level of the pyramid consists of exactly one full tile (image size == tile
   size at that level) the call never returns (endless loop inside _make_empty_cog),
 - otherwise the computation dies with ValueError in MPUChunk.append because the
   "compressed" tile is a numpy array, not bytes.

Run:  PYTHONPATH=/tmp/seed/C05 /venv/bin/python repro.py
"""
import os
import signal
import sys
import tempfile

import dask.array as da
import numpy as np
import rasterio
from affine import Affine

from odc.geo.cog import save_cog_with_dask
from odc.geo.geobox import GeoBox
from odc.geo.xr import wrap_xr

TIMEOUT = 10  # seconds, the healthy cases below take well under a second


class Hang(Exception):
    pass


def _on_alarm(*_):
    raise Hang()


signal.signal(signal.SIGALRM, _on_alarm)

rng = np.random.default_rng(0)
tmp = tempfile.mkdtemp()


def attempt(label, shape, chunks, **kw):
    """returns 'ok' / 'hang' / 'mismatch' / 'crash: ...'"""
    pix = rng.integers(0, 255, size=shape, dtype="uint8")
    gbox = GeoBox(shape, Affine(10, 0, 500000, 0, -10, 6000000), "EPSG:32633")
    xx = wrap_xr(da.from_array(pix, chunks=chunks), gbox)
    dst = os.path.join(tmp, label + ".tif")
    signal.alarm(TIMEOUT)
    try:
        save_cog_with_dask(xx, dst, **kw).compute(scheduler="sync")
    except Hang:
        return "hang"
    except Exception as e:  # pylint: disable=broad-except
        return f"crash: {e!r}"
    finally:
        signal.alarm(0)
    with rasterio.open(dst) as src:
        got = src.read(1)[: shape[0], : shape[1]]
    return "ok" if np.array_equal(got, pix) else "mismatch"


results = {
    # control: same image with a compressor
    "64x64 deflate": attempt("c1", (64, 64), (64, 64), compression="deflate"),
    # failing (ValueError): no level of this pyramid is a single full tile
    "70x90 none, blocksize=[32,16]": attempt(
        "c2", (70, 90), (32, 32), compression="none", blocksize=[32, 16]
    ),
    # failing: level 0 is exactly one 64x64 tile (default blocksize == chunk size)
    "64x64 none (default blocksize)": attempt("f1", (64, 64), (64, 64), compression="none"),
    # failing: level 0 has 4x4 tiles, only the last overview (32x32) is a single 32x32 tile
    "128x128 none, blocksize=32": attempt(
        "f2", (128, 128), (32, 32), compression="none", blocksize=32
    ),
}

print("expected: every case 'ok' (file written, rasterio decodes the original pixels)")
print("observed:")
for k, v in results.items():
    print(f"   {k:40s} -> {v}")

bad = {k: v for k, v in results.items() if v != "ok"}
if bad:
    print(f"FAIL: {len(bad)} case(s) did not produce a correct file (hang = no return within {TIMEOUT}s): {bad}")
    sys.exit(1)
print("PASS")
