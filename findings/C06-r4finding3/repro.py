"""
C06 - the final task of mpu_write() is created with pure=True and a key
    f"{prefix}-{tokenize(write, mk_header, mk_footer, user_kw, spill_sz)}"
that does not depend on the chunk stream. Two writes of DIFFERENT streams get the
SAME dask key, so dask treats them as one task:
  (a) local scheduler: dask.compute(w1, w2) runs one of them and returns its result for both;
  (b) distributed: re-writing a destination while the Future of the previous write is alive
      is silently skipped - no part is handed to the writer, old content stays.

run:  PYTHONPATH=/tmp/seed/C06 /venv/bin/python repro.py
"""
import os
import sys
import tempfile
import warnings

import dask
import dask.bag as db

from odc.geo.cog._mpu import mpu_write
from odc.geo.cog._mpu_fs import MPUFileSink


def stream(lo: bytes, hi: bytes):
    chunks = [(lo * 5000, 0), (hi * 5000, 1)]
    return db.from_sequence(chunks, npartitions=2), b"".join(d for d, _ in chunks)


def short(bb) -> str:
    bb = bytes(bb)
    return f"{len(bb)} bytes made of {sorted(chr(c) for c in set(bb))}"


failures = []

# ------------------------------------------------------------------ (a) local scheduler
bag1, expect1 = stream(b"a", b"A")
bag2, expect2 = stream(b"b", b"B")
r1 = mpu_write(bag1)  # in-memory assembly (no writer), same mode tests/test_mpu.py checks
r2 = mpu_write(bag2)
print("(a) keys:", r1.key, r2.key, "-> identical" if r1.key == r2.key else "-> differ")
o1, o2 = dask.compute(r1, r2, scheduler="synchronous")
print(f"    stream 1 expected {short(expect1)}; observed {short(o1.data)}")
print(f"    stream 2 expected {short(expect2)}; observed {short(o2.data)}")
if bytes(o1.data) != expect1 or bytes(o2.data) != expect2:
    failures.append("(a) dask.compute(mpu_write(s1), mpu_write(s2)) returned the same assembled stream for both")


# ------------------------------------------------------------------ (b) distributed
def distributed_case():
    from distributed import Client, LocalCluster  # pylint: disable=import-outside-toplevel

    tmp = tempfile.mkdtemp()
    dst = os.path.join(tmp, "latest.bin")
    with LocalCluster(
        n_workers=1, threads_per_worker=2, processes=False, dashboard_address=None
    ) as cluster, Client(cluster) as client:
        b1, e1 = stream(b"a", b"A")
        b2, e2 = stream(b"b", b"B")
        f1 = client.compute(mpu_write(b1, MPUFileSink(dst), spill_sz=4096))
        f1.result()
        got1 = open(dst, "rb").read()
        print(f"(b) first write : expected {short(e1)}; file has {short(got1)}")
        # f1 is still referenced, now refresh the same destination with new data
        f2 = client.compute(mpu_write(b2, MPUFileSink(dst), spill_sz=4096))
        f2.result()
        got2 = open(dst, "rb").read()
        print(f"    second write: expected {short(e2)}; file has {short(got2)}")
        del f1
        return got1 == e1 and got2 == e2


try:
    with warnings.catch_warnings():
        warnings.simplefilter("ignore")
        if not distributed_case():
            failures.append("(b) second write to the same destination was skipped, file still holds the old stream")
except ImportError:
    print("(b) skipped: distributed is not installed")

if failures:
    print("\nFAIL:")
    for f in failures:
        print("  -", f)
    sys.exit(1)
print("all good")
