"""
C16 finding 2: GeoBox.enclosing(region) with a region given in a different CRS
does not cover the region.

Expected: "The enclosing GeoBox of a region lies on the source grid, covers the
          region and exceeds it by less than one pixel per side" - for regions
          in same or different CRS.
Observed: for a lon/lat BoundingBox and an Albers (EPSG:3577) 100 m grid the
          returned GeoBox misses a strip of the region ~16 pixels (1.6 km) high:
          only the 4 corner vertices are projected, the curved image of the
          straight lon/lat edges is ignored.
"""
import warnings

warnings.simplefilter("ignore")

from odc.geo.geobox import GeoBox
from odc.geo.geom import BoundingBox, point

gbox = GeoBox.from_bbox(
    (-2_000_000, -5_000_000, 2_500_000, -1_000_000), "epsg:3577", resolution=100
)
region = BoundingBox(130, -30, 140, -20, "epsg:4326")

enc = gbox.enclosing(region)
ny, nx = enc.shape
print("enclosing geobox:", enc)

# points that are INSIDE the region (on / next to its northern edge, plus one interior point)
probes = [(132.0, -20.0), (132.0, -20.001), (131.0, -20.0005), (135.0, -25.0)]
n_out = 0
for lon, lat in probes:
    assert region.left <= lon <= region.right and region.bottom <= lat <= region.top
    px, py = enc.project(point(lon, lat, "epsg:4326")).coords[0]
    inside = (0 <= px <= nx) and (0 <= py <= ny)
    print(
        f"region point lon={lon} lat={lat}: pixel=({px:.2f}, {py:.2f}) in enclosing "
        f"geobox of shape (ny={ny}, nx={nx}) -> {'inside' if inside else 'OUTSIDE'}"
    )
    n_out += not inside

# whole-region check with a densified version of the same region
dense_pix = enc.project(region.polygon.to_crs("epsg:3577", resolution=0.01)).boundingbox
print("expected: pixel bbox of region within [0, nx] x [0, ny] =", (0, 0, nx, ny))
print("observed: pixel bbox of (densified) region            =", tuple(round(v, 2) for v in dense_pix))

assert n_out == 0, f"{n_out} points of the region are not covered by gbox.enclosing(region)"
