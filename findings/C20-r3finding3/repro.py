"""
C20 finding 3: affine_from_axis / data_resolution_and_offset return a wrong
affine for regularly spaced INTEGER-typed axis labels whenever last-first does
not fit the label dtype (any descending unsigned axis, or a narrow signed axis
spanning more than its positive range).

Property clause: "the affine recovered from regularly spaced axis labels
reproduces them".
"""
import sys
import warnings

import numpy as np

from odc.geo.math import affine_from_axis, data_resolution_and_offset

warnings.simplefilter("ignore")


def labels_from(A, nx, ny):
    xx = np.asarray([(A * (i + 0.5, 0.5))[0] for i in range(nx)])
    yy = np.asarray([(A * (0.5, i + 0.5))[1] for i in range(ny)])
    return xx, yy


bad = 0
cases = [
    ("descending uint16 rows", np.arange(10, 50, 10, dtype="uint16"), np.asarray([30, 20, 10], dtype="uint16")),
    ("descending uint8 rows", np.arange(4, dtype="uint8"), np.arange(5, dtype="uint8")[::-1]),
    ("int16 spanning > 32767", np.asarray([-30000, 0, 30000], dtype="int16"), np.asarray([300, 200, 100], dtype="int16")),
    ("same labels as int64 (control)", np.asarray([-30000, 0, 30000], dtype="int64"), np.asarray([30, 20, 10], dtype="int64")),
]
for name, xx, yy in cases:
    A = affine_from_axis(xx, yy)
    rx, ry = labels_from(A, xx.size, yy.size)
    ok = np.allclose(rx, xx.astype("float64")) and np.allclose(ry, yy.astype("float64"))
    print(f"--- {name}")
    print("   expected labels x:", xx.tolist(), " y:", yy.tolist())
    print("   observed labels x:", rx.tolist(), " y:", ry.tolist())
    print("   affine:", tuple(A)[:6], "resolution_and_offset(y) =", data_resolution_and_offset(yy))
    if not ok:
        bad += 1

# the same thing through the public xarray accessor
try:
    import xarray as xr

    import odc.geo.xr  # noqa: F401  pylint: disable=unused-import

    da = xr.DataArray(
        np.zeros((3, 4), dtype="uint8"),
        dims=("y", "x"),
        coords={"y": np.asarray([30, 20, 10], dtype="uint16"), "x": np.arange(10, 50, 10, dtype="uint16")},
    )
    print("xarray .odc.geobox affine :", tuple(da.odc.geobox.affine)[:6], " (expected (10, 0, 5, 0, -10, 35))")
except Exception as e:  # pylint: disable=broad-except
    print("xarray check skipped:", type(e).__name__, e)

if bad:
    print(f"FAIL: {bad} regularly spaced axes are not reproduced by the recovered affine")
    sys.exit(1)
print("OK")
