"""
C09 finding 3: reprojecting a *dask-backed* DataArray/Dataset that is registered
with a GCPGeoBox crashes with a bare AssertionError, while the same call on
numpy-backed data works and returns the requested destination GeoBox.
"""
import traceback
import warnings

import numpy as np
from affine import Affine

from odc.geo.gcp import GCPGeoBox, GCPMapping
from odc.geo.geobox import GeoBox
from odc.geo.xr import xr_zeros

warnings.simplefilter("ignore")

A = Affine.translation(140, -30) * Affine.rotation(30) * Affine.scale(0.01, -0.01)
ny, nx = 20, 30
py, px = np.meshgrid(np.linspace(0, ny, 5), np.linspace(0, nx, 6), indexing="ij")
px, py = px.ravel(), py.ravel()
wx, wy = A * (px, py)
src_gbox = GCPGeoBox(
    (ny, nx), GCPMapping(np.stack([px, py], 1), np.stack([wx, wy], 1), "epsg:4326")
)
dst_gbox = GeoBox(
    (10, 12), Affine.translation(15580000, -3500000) * Affine.scale(100, -100), "epsg:3857"
)

failures = []
for backing, chunks in [("numpy", None), ("dask", (7, 7))]:
    for container in ["DataArray", "Dataset"]:
        for how_name, how in [("GeoBox", dst_gbox), ("crs", "epsg:3857")]:
            xx = xr_zeros(src_gbox, "float32", chunks=chunks)
            assert isinstance(xx.odc.geobox, GCPGeoBox)
            if container == "Dataset":
                xx = xx.to_dataset(name="a")
            tag = f"{backing}/{container}/how={how_name}"
            try:
                out = xx.odc.reproject(how)
                got = out.odc.geobox
                expect = dst_gbox if how_name == "GeoBox" else xx.odc.output_geobox(how)
                ok = got is not None and got.shape == expect.shape and got.crs == expect.crs
                print(tag, "->", "ok" if ok else f"wrong geobox {got}")
                if not ok:
                    failures.append(tag)
            except Exception as e:  # pylint: disable=broad-except
                tb = traceback.extract_tb(e.__traceback__)[-1]
                print(tag, "-> CRASH", type(e).__name__, str(e), f"at {tb.filename}:{tb.lineno}: {tb.line}")
                failures.append(tag)

print()
print("EXPECTED: reprojection of numpy- and dask-backed GCP-registered arrays yields the destination GeoBox")
print("OBSERVED: failures for", failures)
assert not failures
