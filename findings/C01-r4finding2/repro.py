"""
C01 - the same EPSG code written in a slightly different (but accepted) way
compares UNEQUAL, so every combining operation raises CRSMismatchError on two
operands that are in the very same CRS.

Expected (property C01): "When the CRSs are equal (even if spelled differently
...) the operation returns exactly what shapely returns on the raw shapes,
tagged with the operands' CRS."
"""
import sys
import warnings

warnings.filterwarnings("ignore")

from affine import Affine
from shapely import geometry as sg

from odc.geo.crs import CRS
from odc.geo.geobox import GeoBox
from odc.geo.geom import BoundingBox, Geometry, bbox_union, multigeom, unary_union

ref = CRS("EPSG:4326")
A = sg.box(0, 0, 2, 2)
B = sg.box(1, 1, 3, 3)
failures = []

# text read from a file without .strip(), zero padded code, explicit sign - all accepted by pyproj/PROJ
for spelling in ["EPSG:4326\n", "epsg:4326\n", "EPSG:04326", "EPSG:+4326"]:
    other = CRS(spelling)
    print(f"--- CRS({spelling!r}) -> {other!r}  .epsg={other.epsg}")
    print("    pyproj says equal:", other.proj == ref.proj, "| same object:", other.proj is ref.proj)
    print("    odc.geo says equal:", other == ref, "/", ref == other)
    assert other.proj == ref.proj and other.epsg == ref.epsg == 4326  # it IS the same CRS

    ops = {
        "Geometry.intersection": lambda: Geometry(A, ref).intersection(Geometry(B, other)),
        "Geometry.contains": lambda: Geometry(A, other).contains(Geometry(B, ref)),
        "unary_union": lambda: unary_union([Geometry(A, ref), Geometry(B, other)]),
        "multigeom": lambda: multigeom([Geometry(A, ref), Geometry(B, other)]),
        "bbox_union": lambda: bbox_union([BoundingBox(0, 0, 2, 2, ref), BoundingBox(1, 1, 3, 3, other)]),
        "GeoBox |": lambda: GeoBox((2, 2), Affine(1, 0, 0, 0, -1, 2), ref)
        | GeoBox((2, 2), Affine(1, 0, 1, 0, -1, 3), other),
    }
    for name, fn in ops.items():
        try:
            r = fn()
            print(f"    OK   {name}: {r!r}"[:110])
        except ValueError as e:
            print(f"    BAD  {name}: raised {type(e).__name__}: {e}"[:110])
            failures.append((spelling, name))

print()
print("shapely on the raw shapes:", A.intersection(B).wkt)
if failures:
    print(
        f"EXPECTED: results identical to shapely, tagged EPSG:4326; "
        f"OBSERVED: {len(failures)} CRS-mismatch errors between operands that are in the same CRS"
    )
    sys.exit(1)
print("all good")
