"""
C05: save_cog_with_dask of a boolean raster (a mask, e.g. the result of
odc.geo.xr.rasterize / xx > 0) silently writes a file that decodes to garbage.

The TIFF header says 1 bit per sample (tifffile maps dtype bool to a bilevel image),
the tile payload written by odc-geo has 8 bits per sample.

Run:  PYTHONPATH=/tmp/seed/C05 /venv/bin/python repro.py
"""
import os
import sys
import tempfile

import dask.array as da
import numpy as np
import rasterio
import tifffile
from affine import Affine

from odc.geo.cog import save_cog_with_dask
from odc.geo.geobox import GeoBox
from odc.geo.xr import wrap_xr

rng = np.random.default_rng(0)
tmp = tempfile.mkdtemp()
H, W = 70, 90
gbox = GeoBox((H, W), Affine(10, 0, 500000, 0, -10, 6000000), "EPSG:32633")
mask = rng.random((H, W)) < 0.5  # dtype bool


def save_and_read(label, pix, **kw):
    xx = wrap_xr(da.from_array(pix, chunks=(32, 32)), gbox)
    dst = os.path.join(tmp, label + ".tif")
    save_cog_with_dask(xx, dst, blocksize=[32, 16], **kw).compute(scheduler="sync")
    with rasterio.open(dst) as src:
        rio = src.read(1)[:H, :W]
    with tifffile.TiffFile(dst) as tf:
        page = tf.pages[0]
        bits = page.bitspersample
        tile_nbytes_hdr = page.tilelength * page.tilewidth * bits // 8
        try:
            tfa = page.asarray()[:H, :W]
        except Exception as e:  # pylint: disable=broad-except
            tfa = e
    return rio, tfa, bits, tile_nbytes_hdr


print("expected: the saved mask reads back with the same True/False pattern (as bool or 0/1)")
print("observed:")
fails = []

# control: the same mask as uint8 round-trips
rio, tfa, bits, _ = save_and_read("u8", mask.astype("uint8"))
ok = np.array_equal(rio, mask) and np.array_equal(tfa, mask)
print(f"   uint8 control : bits/sample={bits}, round trip ok={ok}")
if not ok:
    fails.append("uint8 control")

for label, kw in [
    ("bool, default options", {}),
    ("bool, predictor=False, zstd", {"predictor": False, "compression": "zstd"}),
]:
    try:
        rio, tfa, bits, hdr_nbytes = save_and_read("b", mask, **kw)
    except Exception as e:  # pylint: disable=broad-except
        print(f"   {label}: CRASH {e!r}")
        fails.append(label)
        continue
    n_rio = int((rio.astype(bool) != mask).sum())
    if isinstance(tfa, Exception):
        tf_msg = f"tifffile cannot decode: {tfa!r}"
        n_tf = mask.size
    else:
        n_tf = int((tfa.astype(bool) != mask).sum())
        tf_msg = f"tifffile {n_tf}/{mask.size} pixels differ"
    print(
        f"   {label}: header bits/sample={bits} (tile = {hdr_nbytes} bytes), "
        f"odc-geo compressed {32 * 32} bytes per tile; "
        f"rasterio {n_rio}/{mask.size} pixels differ, {tf_msg}"
    )
    if n_rio or n_tf:
        fails.append(label)

if fails:
    print(f"FAIL: {fails} - file written without any error but does not decode to the original mask")
    sys.exit(1)
print("PASS")
