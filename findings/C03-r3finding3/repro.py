"""
C03 finding 3: boundary sample points are float32, so the world coordinates
they are turned into are float32 as well; for high resolution rasters the
rounding is several pixels and the planned source region misses pixels.

roi_boundary() (used by GeoBox.boundary) does
``np.linspace(start, stop, n, dtype="float32")``.  GbxPointTransform then
computes ``dst.pix2wld(xx, yy)`` on these float32 arrays: float32 * python
float stays float32, so a web-mercator easting such as 16_363_412.37 m is
rounded to a whole metre (float32 spacing is 1 m above 2**23 = 8_388_608 and 2 m
above 2**24).  With 5 cm pixels that is up to 10 pixels, far more than the
1 px padding.  (Independently, pixel coordinates above 2**24 are rounded too:
GeoBox((1, 2**24+1)) vs the same grid shifted by 0.3 px loses the last column.)

src: 5 cm drone ortho-mosaic in UTM 55S (EPSG:32755)
dst: 6 cm web-mercator (EPSG:3857) window inside the footprint of src
"""
import warnings

import numpy as np
from affine import Affine

from odc.geo import xy_
from odc.geo.geobox import GeoBox
from odc.geo.overlap import compute_reproject_roi

warnings.simplefilter("ignore")

src = GeoBox((2000, 2000), Affine(0.05, 0, 690_000.0, 0, -0.05, 6_100_100.0), "EPSG:32755")
dst = GeoBox.from_geopolygon(src.extent.to_crs("EPSG:3857"), resolution=0.06)[300:900, 200:1500]

rr = compute_reproject_roi(src, dst)
print("src:", src)
print("dst:", dst)
print("roi_src:", rr.roi_src)
print("roi_dst:", rr.roi_dst)

ny, nx = dst.shape
yy, xx = (a.ravel() for a in np.mgrid[0:ny, 0:nx])
pts = rr.transform.back([xy_(float(x) + 0.5, float(y) + 0.5) for x, y in zip(xx, yy)])
px = np.array([p.x for p in pts])
py = np.array([p.y for p in pts])

inside_src = (px > 0) & (px < src.shape.x) & (py > 0) & (py < src.shape.y)
ry, rx = rr.roi_src
inside_roi = (px >= rx.start) & (px <= rx.stop) & (py >= ry.start) & (py <= ry.stop)
missing = inside_src & ~inside_roi

print(f"expected: all {int(inside_src.sum())} destination pixel centres that map inside the source "
      f"image map inside roi_src")
if missing.any():
    d = np.maximum.reduce([rx.start - px, px - rx.stop, ry.start - py, py - ry.stop])
    i = int(np.argmax(np.where(missing, d, -1)))
    print(f"observed: {int(missing.sum())} of them map outside roi_src, e.g. dst pixel "
          f"(row={yy[i]}, col={xx[i]}) -> src (row={py[i]:.2f}, col={px[i]:.2f}), "
          f"{d[i]:.2f} px outside roi_src (padding is 1)")
else:
    print("observed: none missing")

assert not missing.any(), "float32 boundary coordinates make roi_src miss needed source pixels"
