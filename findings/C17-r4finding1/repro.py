"""
roi_is_full gives wrong answers / crashes when the shape is the library's own
Shape2d (what GeoBox.shape returns), while roi_normalise and roi_pad accept it.
"""
import numpy as np

from odc.geo.geobox import GeoBox
from odc.geo.roi import roi_is_full, roi_normalise, roi_pad

gbox = GeoBox.from_bbox((0, 0, 20, 10), "epsg:4326", resolution=1)
shape = gbox.shape  # Shape2d(x=20, y=10)
assert shape == (10, 20)
X = np.zeros(tuple(shape))

failures = []
cases = [
    np.s_[0:10, 0:20],  # explicit full
    np.s_[:, :],  # open ended full
    np.s_[-10:, :],  # negative offset full
    np.s_[:, 2:3],  # NOT full
    np.s_[3:4, :],  # NOT full
]
for roi in cases:
    expect = X[roi].shape == X.shape  # numpy oracle
    ref = roi_is_full(roi, tuple(shape))  # plain tuple works
    assert ref == expect, (roi, ref, expect)
    # sibling helpers accept Shape2d just fine
    assert roi_normalise(roi, shape) == roi_normalise(roi, tuple(shape))
    assert roi_pad(roi, 1, shape) == roi_pad(roi, 1, tuple(shape))
    try:
        got = roi_is_full(roi, shape)
    except Exception as e:  # pylint: disable=broad-except
        got = f"raised {e!r}"
    status = "ok" if got == expect else "WRONG"
    print(f"roi_is_full({roi}, {shape!r}): expected {expect}, observed {got}  [{status}]")
    if got != expect:
        failures.append((roi, expect, got))

assert not failures, f"{len(failures)} of {len(cases)} roi_is_full answers wrong for Shape2d"
