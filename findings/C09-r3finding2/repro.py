"""
C09 finding 2: a rotated / sheared GeoBox with a single row and/or a single
column (CRS attached) does not round-trip through wrap_xr / xr_zeros -> .odc.geobox.

The recovered GeoBox has the short axis scaled by the *world* resolution
(e.g. 10x for 10 m pixels) and mirrored, so its footprint/extent, resolution and
pixel corners are wrong.  The same happens when a bigger rotated raster is
sliced down to one row / one column.
"""
import warnings

import numpy as np
from affine import Affine

from odc.geo.geobox import GeoBox
from odc.geo.xr import xr_zeros

warnings.simplefilter("ignore")


def same(a, b):
    return (
        a is not None
        and a.shape == b.shape
        and a.crs == b.crs
        and np.allclose(a.affine[:6], b.affine[:6], rtol=1e-9, atol=1e-9)
    )


A = Affine.translation(1000, 2000) * Affine.rotation(30) * Affine.scale(10, -10)
S = Affine(10, 3, 1000, 0, -10, 2000)  # sheared

bad = []
for name, aff in [("rotated", A), ("sheared", S)]:
    for shape in [(5, 7), (1, 7), (5, 1), (1, 1)]:
        gbox = GeoBox(shape, aff, "epsg:3857")
        got = xr_zeros(gbox).odc.geobox
        ok = same(got, gbox)
        print(f"wrap {name} {shape}: round-trip equal={ok}")
        if not ok:
            print("    expected affine:", tuple(gbox.affine)[:6], "resolution", gbox.resolution)
            print("    observed affine:", tuple(got.affine)[:6], "resolution", got.resolution)
            print("    expected extent area:", gbox.extent.area, "observed:", got.extent.area)
            bad.append(("wrap", name, shape))

# slicing a 9x11 rotated raster to one row: pixel footprint must not change
gbox = GeoBox((9, 11), A, "epsg:3857")
xx = xr_zeros(gbox)
for roi in [np.s_[3:4, :], np.s_[:, 5:6]]:
    got = xx[roi].odc.geobox
    expect = gbox[roi]
    ok = same(got, expect)
    print(f"slice {roi}: equals GeoBox[roi] = {ok}")
    if not ok:
        print("    expected corners:", expect.extent.exterior.points[:4])
        print("    observed corners:", got.extent.exterior.points[:4])
        bad.append(("slice", roi))

print()
print("EXPECTED: recovered GeoBox equals the wrapped one for every shape (1xN, Nx1, 1x1 included)")
print("OBSERVED: mismatches:", bad)
assert not bad, "rotated/sheared single-row/column GeoBox does not round-trip"
