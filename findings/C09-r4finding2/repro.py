"""
C09: a slightly rotated / sheared GeoBox with fine (sub-metre, geographic) pixels loses its
rotation/shear when wrapped into xarray: .odc.geobox comes back axis-aligned and pixels far
from the origin are reported several pixels away from where the wrapped GeoBox has them.

GeoBox.axis_aligned -> math.is_affine_st(A, tol=1e-10) compares the off-diagonal terms with an
ABSOLUTE tolerance.  For 1e-6 / 1e-7 degree pixels (10 cm / 1 cm) a rotation that moves the far
edge of the raster by whole pixels still has |b|,|d| < 1e-10, so xr_coords() takes the
axis-aligned branch and writes plain x/y labels computed from a,e,c,f only.
"""
import warnings

import numpy as np
from affine import Affine

from odc.geo.geobox import GeoBox
from odc.geo.xr import xr_zeros

warnings.simplefilter("ignore")

cases = [
    ("rotated 0.05 deg, 1e-7 deg pixels", (1000, 10000), Affine.translation(147, -35) * Affine.rotation(0.05) * Affine.scale(1e-7, -1e-7)),
    ("rotated 0.005 deg, 1e-6 deg pixels", (2000, 20000), Affine.translation(147, -35) * Affine.rotation(0.005) * Affine.scale(1e-6, -1e-6)),
    ("sheared, 1e-6 deg pixels", (20000, 500), Affine(1e-6, 9e-11, 147, 0, -1e-6, -35)),
]

worst = 0.0
for name, shape, A in cases:
    g = GeoBox(shape, A, "EPSG:4326")
    xx = xr_zeros(g, dtype="uint8", chunks=(1000, 1000))  # dask: no big allocation
    got = xx.odc.geobox
    ny, nx = shape
    res = abs(A.a)
    shift = 0.0
    for col, row in [(0.5, 0.5), (nx - 0.5, 0.5), (0.5, ny - 0.5), (nx - 0.5, ny - 0.5)]:
        ex, ey = g.affine * (col, row)
        ox, oy = got.affine * (col, row)
        shift = max(shift, float(np.hypot(ex - ox, ey - oy)) / res)
    # same through a slice of the far corner: world location of remaining pixels
    sub = xx[ny - 10 :, nx - 10 :]
    ex, ey = g[ny - 10 :, nx - 10 :].affine * (0.5, 0.5)
    ox, oy = sub.odc.geobox.affine * (0.5, 0.5)
    shift_sub = float(np.hypot(ex - ox, ey - oy)) / res
    print(f"{name}: shape={shape} GeoBox.axis_aligned={g.axis_aligned}")
    print("   wrapped  affine:", tuple(g.affine)[:6])
    print("   observed affine:", tuple(got.affine)[:6])
    print(f"   expected: equal GeoBox, pixel centres identical; observed: equal={got == g}, "
          f"corner pixel displaced by {shift:.2f} px (after slicing far corner: {shift_sub:.2f} px)")
    worst = max(worst, shift, shift_sub)

assert worst < 0.01, f"recovered GeoBox puts pixels up to {worst:.2f} pixels away from where the wrapped GeoBox has them"
