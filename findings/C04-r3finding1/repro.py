"""
C04: "tile regions ... have the advertised per-tile shapes" for *all tile-index selections*.

VariableSizedTiles.__getitem__ (and GeoboxTiles.__getitem__ on a chunked tiling) accept numpy
style negative tile indexes, and Tiles.tile_shape documents/supports them too, but
VariableSizedTiles.tile_shape (and therefore GeoboxTiles.chunk_shape for chunk-tuple tilings)
feeds the negative index straight into the offsets array:  a[i + 1] - a[i]  with i == -1 is
a[0] - a[-1] == -total, with i == -2 it is the size of the LAST tile and so on.
"""
import sys

import numpy as np
from affine import Affine

from odc.geo.geobox import GeoBox, GeoboxTiles
from odc.geo.roi import Tiles, VariableSizedTiles, roi_shape

chunks = ((3, 4, 5), (2, 6))
vt = VariableSizedTiles(chunks)
bad = []
for r in range(-3, 3):
    for c in range(-2, 2):
        region = vt[r, c]  # negative indexes are accepted here and give the right region
        expect = roi_shape(region)
        try:
            got = vt.tile_shape((r, c)).yx
        except Exception as e:  # pylint: disable=broad-except
            got = repr(e)
        if got != expect:
            bad.append(((r, c), expect, got))

for idx, expect, got in bad:
    print(f"VariableSizedTiles{chunks}.tile_shape({idx}): expected {expect} (== shape of tiles[{idx}]), observed {got}")

# same thing through the public GeoboxTiles API, regular tiling is fine, chunked one is not
gbox = GeoBox((12, 8), Affine.identity(), "epsg:3857")
reg = GeoboxTiles(gbox, (5, 3))
var = GeoboxTiles(gbox, reg.chunks)  # identical partition, expressed as chunk tuples
print("regular  chunk_shape((-1,-1)) =", reg.chunk_shape((-1, -1)), " tile shape =", reg[-1, -1].shape)
print("chunked  chunk_shape((-1,-1)) =", var.chunk_shape((-1, -1)), " tile shape =", var[-1, -1].shape)

# the regular implementation is the reference: it agrees with its own regions
tt = Tiles((12, 8), (5, 3))
assert tt.tile_shape((-1, -1)).yx == roi_shape(tt[-1, -1])

assert var.chunk_shape((-1, -1)) == var[-1, -1].shape, (
    "expected chunk_shape((-1,-1)) == shape of tile [-1,-1] == "
    f"{var[-1, -1].shape.yx}, observed {var.chunk_shape((-1, -1)).yx}"
)
assert not bad, f"{len(bad)} negative tile indexes give a tile_shape different from the shape of the tile region"
sys.exit(0)
