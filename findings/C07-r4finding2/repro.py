"""
C07 - to_crs to / from a compound CRS given by its EPSG code pair crashes.

'EPSG:7856+5711' (GDA2020 / MGA zone 56 + AHD height) is a standard way of naming a
compound CRS, pyproj understands it and maps 2D points into it without trouble.
Geometry.to_crs must therefore map the vertices exactly as pyproj does.
"""
import sys
import traceback

import pyproj

from odc.geo.geom import point

spec = "EPSG:7856+5711"
lon, lat = 151.2, -33.85  # Sydney, inside the valid area

tr = pyproj.Transformer.from_crs("EPSG:4326", spec, always_xy=True)
expect = tr.transform(lon, lat)
print("pyproj maps", (lon, lat), "->", expect)

failed = 0
for what, target in [("string", spec), ("pyproj.CRS object", pyproj.CRS.from_user_input(spec))]:
    try:
        out = point(lon, lat, "EPSG:4326").to_crs(target)
        got = out.coords[0]
        print(f"to_crs({what}): observed", got)
        assert abs(got[0] - expect[0]) < 1e-6 and abs(got[1] - expect[1]) < 1e-6
    except Exception as e:  # pylint: disable=broad-except
        failed += 1
        print(f"to_crs({what}): expected {expect}, observed {type(e).__name__}: {e}")
        traceback.print_exc(limit=-3)

# same CRS spelled as WKT works, so it is only the spelling that is rejected
out = point(lon, lat, "EPSG:4326").to_crs(pyproj.CRS.from_user_input(spec).to_wkt())
print("to_crs(WKT of the same CRS): observed", out.coords[0])

if failed:
    print("FAIL")
    sys.exit(1)
print("OK")
