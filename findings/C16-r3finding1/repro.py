"""
C16 finding 1: GeoBoxes that ARE on a common pixel grid (tiles cut out of one
base GeoBox by integer slicing) are rejected with ``ValueError("Incompatible
grids")`` by | , & and overlap_roi when the grid is fine (cm-level pixels) and
far from the CRS origin (any UTM / Web-Mercator / lon-lat location).

Expected: union / intersection / overlap of two tiles of the same base grid
          always succeed (property: "For GeoBoxes on a common pixel grid, union
          is the smallest GeoBox on that grid containing all operands ...").
Observed: ValueError: Incompatible grids  for a large fraction of tile pairs.
"""
import warnings

warnings.simplefilter("ignore")

from affine import Affine

from odc.geo.geobox import GeoBox, pixel_translation

# 7.5 cm aerial ortho-photo mosaic in UTM zone 55S
res = 0.075
base = GeoBox((40_000, 40_000), Affine(res, 0, 634567.0, 0, -res, 6123456.0), "epsg:32755")

tiles = [
    base[iy * 512 : (iy + 1) * 512, ix * 512 : (ix + 1) * 512]
    for iy in range(0, 70, 7)
    for ix in range(0, 70, 7)
]

first = tiles[0]
n_bad = 0
example = None
for t in tiles[1:]:
    for name, op in (
        ("|", lambda a, b: a | b),
        ("&", lambda a, b: a & b),
        ("overlap_roi", lambda a, b: a.overlap_roi(b)),
    ):
        try:
            op(first, t)
        except ValueError as e:
            n_bad += 1
            if example is None:
                example = (name, t, e, pixel_translation(t, first))

print(f"expected: 0 failures out of {3*(len(tiles)-1)} operations on tiles of one base grid")
print(f"observed: {n_bad} operations raised ValueError")
if example is not None:
    name, t, e, tr = example
    print(f"example : tiles[0] {name} {t!r}\n          -> ValueError({e})")
    print(f"          computed pixel translation = ({tr.x!r}, {tr.y!r})  (true value is an exact integer)")

assert n_bad == 0, "aligned GeoBoxes rejected as 'Incompatible grids'"
