"""
C13: same CRS, nearest neighbour, aligned x2 down-sampling of a 0.00025 degree grid:
the chunked (dask) result differs from the in-memory result in a large share of the pixels -
whole destination chunks pick a different one of the 2x2 source pixels than the in-memory run
(and than their neighbouring chunks).

run:  PYTHONPATH=/tmp/seed/C13 /venv/bin/python repro.py
"""
import warnings

import numpy as np
import xarray as xr
from affine import Affine

from odc.geo.geobox import GeoBox
from odc.geo.xr import xr_coords

warnings.filterwarnings("ignore")

H = W = 240
RES = 0.00025  # the usual "25m in degrees" grid
sg = GeoBox((H, W), Affine(RES, 0, 147.0, 0, -RES, -35.0), "EPSG:4326")
dg = GeoBox((H // 2, W // 2), Affine(2 * RES, 0, 147.0, 0, -2 * RES, -35.0), "EPSG:4326")
# same CRS, same origin, pixels twice as large: every dst pixel covers exactly 2x2 src pixels, its centre sits on their common corner
CH = 60

# source value encodes its own position: v = row * W + col
data = np.arange(H * W, dtype="int32").reshape(H, W)
xx = xr.DataArray(data, dims=sg.dimensions, coords=xr_coords(sg))

ref = xx.odc.reproject(dg, resampling="nearest").values
got = xx.chunk(CH).odc.reproject(dg, resampling="nearest").compute(scheduler="synchronous").values

assert ref.shape == got.shape == (H // 2, W // 2)


def offsets(a):
    """which of the 2x2 source pixels under each destination pixel was taken: (dy, dx) in {0,1}^2"""
    rr, cc = np.meshgrid(np.arange(a.shape[0]), np.arange(a.shape[1]), indexing="ij")
    return a // W - 2 * rr, a % W - 2 * cc


ry, rx = offsets(ref)
gy, gx = offsets(got)
# sanity: both results only ever take one of the 2x2 pixels under the destination pixel
assert set(np.unique(ry)) | set(np.unique(rx)) | set(np.unique(gy)) | set(np.unique(gx)) <= {0, 1}

nbad = int((ref != got).sum())
print(f"source {sg.shape} @ {RES} deg, destination {dg.shape} @ {2 * RES} deg, same CRS/origin, nearest, src chunks {CH}x{CH}")
print("expected: chunked result identical to the in-memory result (same CRS + nearest)")
print(f"observed: {nbad} of {ref.size} pixels differ")

n = CH // 2  # destination chunk size
print("\nsource pixel (dy,dx) of the 2x2 block that was sampled, per destination chunk:")
print("  chunk      in-memory          chunked")
for iy in range(ref.shape[0] // n):
    for ix in range(ref.shape[1] // n):
        s = np.s_[iy * n:(iy + 1) * n, ix * n:(ix + 1) * n]

        def summ(dy, dx):
            u = sorted(set(zip(dy[s].ravel().tolist(), dx[s].ravel().tolist())))
            return str(u)

        print(f"  ({iy},{ix})   {summ(ry, rx):<18} {summ(gy, gx)}")

assert nbad == 0, f"chunked != in-memory for same-CRS nearest reprojection: {nbad} of {ref.size} pixels differ"
print("OK")
