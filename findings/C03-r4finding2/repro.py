"""
C03: padding / align given as an unsigned numpy integer (np.uint8(1), np.uint16(256), ...)
makes compute_reproject_roi return zero-area regions for rasters that overlap
(every needed pixel is dropped); the same value as int / np.int64 plans correctly.

run:  PYTHONPATH=/tmp/seed/C03 /venv/bin/python repro.py
"""
import sys
import warnings

warnings.simplefilter("ignore")

import numpy as np
from affine import Affine

from odc.geo.geobox import GeoBox
from odc.geo.overlap import compute_reproject_roi
from odc.geo.roi import roi_is_empty

# same CRS, dst pixels 1.5x coarser (no paste possible) and fully inside the source
src = GeoBox((100, 100), Affine(10, 0, 0, 0, -10, 1000), "EPSG:3857")
dst = GeoBox((40, 40), Affine(15, 0, 100, 0, -15, 900), "EPSG:3857")
# different CRS
src2 = GeoBox((200, 200), Affine(0.001, 0, 15.0, 0, -0.001, 45.2), "EPSG:4326")
dst2 = GeoBox((100, 100), Affine(100, 0, 500000, 0, -100, 5005000), "EPSG:32633")


def n_needed(ri, src, dst):
    """number of dst pixels whose centre maps inside src"""
    h, w = dst.shape
    jj, ii = np.meshgrid(np.arange(h) + 0.5, np.arange(w) + 0.5, indexing="ij")
    from odc.geo.types import xy_

    pts = ri.transform.back([xy_(float(x), float(y)) for x, y in zip(ii.ravel(), jj.ravel())])
    q = np.array([p.xy for p in pts])
    H, W = src.shape
    return int(((q[:, 0] > 0) & (q[:, 0] < W) & (q[:, 1] > 0) & (q[:, 1] < H)).sum())


failures = []
for name, s, d in [("same-CRS", src, dst), ("4326->UTM", src2, dst2)]:
    for kw_ref, kw in [
        ({"padding": 1}, {"padding": np.uint8(1)}),
        ({"padding": 2}, {"padding": np.uint64(2)}),
        ({"align": 4}, {"align": np.uint8(4)}),
        ({"padding": 1, "align": 16}, {"padding": np.uint16(1), "align": np.uint16(16)}),
    ]:
        ref = compute_reproject_roi(s, d, **kw_ref)
        got = compute_reproject_roi(s, d, **kw)
        need = n_needed(got, s, d)
        same = (ref.roi_src, ref.roi_dst) == (got.roi_src, got.roi_dst)
        kws = {k: f"{type(v).__name__}({v})" for k, v in kw.items()}
        print(f"{name} {kws}")
        print(f"   expected (python ints): roi_src={ref.roi_src} roi_dst={ref.roi_dst}")
        print(f"   observed              : roi_src={got.roi_src} roi_dst={got.roi_dst}   dst pixels mapping inside src: {need}")
        if not same or (need > 0 and (roi_is_empty(got.roi_dst) or roi_is_empty(got.roi_src))):
            failures.append((name, kws))

if failures:
    print(f"FAIL: {len(failures)} plans differ from the plain-int plan / drop all needed pixels")
    sys.exit(1)
print("OK")
