"""
roi_normalise / roi_pad: negative offsets that reach past the start of the axis.

numpy clamps such offsets to 0 (x[-15:] on a length-10 array is the whole
array, x[:-15] is empty).  _norm_slice() adds ``n`` exactly once and returns
the still-negative number, which numpy then re-interprets as an offset from
the end -> the "normalised" slice selects DIFFERENT elements.
"""
import sys

import numpy as np

from odc.geo.roi import roi_normalise, roi_pad

bad = []
for n in range(0, 7):
    X = np.arange(n)
    for a in [None, *range(-9, 10)]:
        for b in [None, *range(-9, 10)]:
            s = slice(a, b)
            ns = roi_normalise(s, n)
            if X[s].tolist() != X[ns].tolist():
                bad.append((n, s, ns, X[s].tolist(), X[ns].tolist()))

print(f"roi_normalise: {len(bad)} (n, slice) combinations select different elements")
for n, s, ns, want, got in bad[:6]:
    print(f"  n={n} {s} -> {ns}: expected X[s]={want} observed X[norm]={got}")

# the same helper feeds roi_pad, which promises a result inside 0..n
p = roi_pad(np.s_[:-8], 1, 5)
print(f"roi_pad(s_[:-8], 1, 5): expected slice within 0..5 (empty region), observed {p}"
      f" which selects {np.arange(5)[p].tolist()}")

# consequence for users: GeoBox.__getitem__ goes through roi_normalise
try:
    from odc.geo.geobox import GeoBox

    gbox = GeoBox.from_bbox((0, 0, 10, 10), "epsg:4326", resolution=1)
    print(f"GeoBox 10x10 [-15:, :] -> shape {gbox[-15:, :].shape} (numpy/xarray would give 10 rows)")
except Exception as e:  # pragma: no cover
    print("geobox illustration skipped:", e)

x = np.arange(10)
s = np.s_[-15:]
ns = roi_normalise(s, 10)
print(f"headline: roi_normalise(s_[-15:], 10) = {ns}; expected to select {x[s].tolist()}, selects {x[ns].tolist()}")

if bad or not (0 <= p.start <= 5 and 0 <= p.stop <= 5):
    sys.exit(1)
