"""
C06 - part numbers handed to the writer leave the writer's allowed range
(min_part..max_part): part ids are pre-allocated as
    min_part + 1 + partition_index * writes_per_chunk
and nothing ever compares them with ``write.max_part`` before calling the writer
(MPUChunk.maybe_write has no range check at all; flush_rhs only has an ``assert``).

run:  PYTHONPATH=/tmp/seed/C06 /venv/bin/python repro.py
"""
import sys

import dask.bag as db

from odc.geo.cog._mpu import mpu_write


class Writer:
    """Records what it is given, S3-like limits scaled down in size only."""

    def __init__(self, **limits):
        self._limits = limits
        self.calls = []
        self.final = None

    min_write_sz = property(lambda self: self._limits.get("min_write_sz", 8))
    max_write_sz = property(lambda self: self._limits.get("max_write_sz", 1 << 30))
    min_part = property(lambda self: self._limits.get("min_part", 1))
    max_part = property(lambda self: self._limits.get("max_part", 10_000))

    def __call__(self, part, data):
        self.calls.append((part, bytes(data)))
        return {"PartNumber": part}

    def finalise(self, parts):
        self.final = list(parts)
        return "done"

    def __dask_tokenize__(self):
        return ("Writer", id(self))


def run(title, nparts, chunk_sz, **kw):
    limits = kw.pop("limits")
    w = Writer(**limits)
    chunks = [(bytes([65 + i % 26]) * chunk_sz, i) for i in range(nparts)]
    expected = b"".join(d for d, _ in chunks)
    bag = db.from_sequence(chunks, npartitions=nparts)
    print(f"--- {title}")
    print(f"    writer allows parts {w.min_part}..{w.max_part}, min part size {w.min_write_sz};"
          f" stream = {nparts} partitions x {chunk_sz} bytes, {kw}")
    try:
        mpu_write(bag, w, **kw).compute(scheduler="synchronous")
    except Exception as e:  # pylint: disable=broad-except
        ids = [p for p, _ in w.calls]
        bad = [p for p in ids if not w.min_part <= p <= w.max_part]
        print(f"    observed: compute raised {type(e).__name__}: {e!r}")
        print(f"    observed: part numbers handed to the writer before the crash: {ids}")
        print(f"    observed: of those outside {w.min_part}..{w.max_part}: {bad}")
        print("    expected: a successful write with all part numbers inside the allowed range")
        return False
    ids = sorted(p for p, _ in w.calls)
    out_of_range = [p for p in ids if not w.min_part <= p <= w.max_part]
    got = b"".join(d for _, d in sorted(w.calls))
    n_needed = len(expected) // w.min_write_sz
    print(f"    bytes ok: {got == expected}; {len(ids)} parts written "
          f"(the range has room for {w.max_part - w.min_part + 1})")
    print(f"    expected: every part number in {w.min_part}..{w.max_part}")
    print(f"    observed: part numbers {ids}")
    print(f"    out of range: {out_of_range}")
    return not out_of_range and got == expected


ok = True
# 1. S3 numbering limits, generous writes_per_chunk: 12 partitions x 1000 credits = ids up to 12001,
#    although only 12 parts are ever written
ok &= run(
    "S3-like part range 1..10000, writes_per_chunk=1000, 12 partitions",
    12, 64,
    limits={"min_part": 1, "max_part": 10_000, "min_write_sz": 8},
    writes_per_chunk=1000, spill_sz=8,
)
# 2. small range, default writes_per_chunk: 4 parts would be plenty (the whole stream could even go in one)
ok &= run(
    "part range 1..4, writes_per_chunk=1, 8 partitions",
    8, 64,
    limits={"min_part": 1, "max_part": 4, "min_write_sz": 8},
    writes_per_chunk=1, spill_sz=8,
)

if not ok:
    print("\nFAIL: writer was handed part numbers outside min_part..max_part (or the write crashed)")
    sys.exit(1)
print("all good")
