"""
C01 - Geometry.split() does not raise on CRS mismatch when it is called.

split() is a generator function, so its CRS guard only runs when the returned
iterator is advanced.  The call itself returns normally for operands in different
reference systems (also for tagged-vs-untagged), every other combining operation
raises at call time.
"""
import warnings

warnings.filterwarnings("ignore")

from odc.geo.crs import CRSMismatchError
from odc.geo.geom import box, line

poly = box(0, 0, 10, 30, "EPSG:4326")
cases = {
    "projected splitter": line([(5, 0), (5, 30)], "EPSG:3857"),
    "CRS-less splitter": line([(5, 0), (5, 30)], None),
}

bad = []
for name, splitter in cases.items():
    # reference behaviour of the other guards
    try:
        poly.intersects(splitter)
        raise SystemExit("intersects() did not raise?!")
    except CRSMismatchError:
        pass

    handled = False
    try:
        parts = poly.split(splitter)  # <- the combining call
    except CRSMismatchError:
        handled = True
        parts = []

    print(f"{name}: expected poly.split(splitter) to raise CRSMismatchError (a ValueError)")
    if handled:
        print("   observed: raised at call time")
        continue
    print(f"   observed: returned {parts!r} without raising")
    try:
        next(iter(parts))
        print("   ... and even iteration did not raise")
    except CRSMismatchError as e:
        print(f"   the error only surfaces later, outside the caller's try block: {e!r}")
    bad.append(name)

assert not bad, f"split() returned normally for mismatched CRSs: {bad}"
