"""F88 (R-ISNUM scan, round 4): block sizes that are numpy integers."""
import sys
import numpy as np
from odc.geo.cog._shared import norm_blocksize
try:
    ok = norm_blocksize(np.int64(512)) == (512, 512) and norm_blocksize((np.int32(256), np.int32(128))) == (256, 128)
except Exception as e:  # pylint: disable=broad-except
    print("FAIL:", type(e).__name__, e); sys.exit(1)
print("ok" if ok else "FAIL"); sys.exit(0 if ok else 1)
