"""F87 (found by the R-ISNUM scan, round 4): an EPSG code that is a numpy integer."""
import sys
import numpy as np
from odc.geo.crs import CRS
try:
    ok = CRS(np.int64(4326)) == CRS(4326) and hash(CRS(np.int32(4326))) == hash(CRS("epsg:4326"))
except Exception as e:  # pylint: disable=broad-except
    print("FAIL:", type(e).__name__, e); sys.exit(1)
print("ok" if ok else "FAIL: unequal"); sys.exit(0 if ok else 1)
