"""
C13 finding 2: EPSG:4326 -> EPSG:3035 (LAEA Europe).  Destination pixels that
source pixels DO reach come out as fill in the chunked result, the amount
depends on the chunking.

The source tiles needed by a destination chunk are found by projecting the
4-corner rectangle of the chunk into the source CRS without densifying its
edges.  The true footprint of the chunk in lon/lat has strongly curved edges,
so source tiles that lie in the "bulge" are not wired into the task and the
destination pixels sampling them get the fill value.
"""
import warnings

import numpy as np

from odc.geo.geobox import GeoBox
from odc.geo.xr import wrap_xr

warnings.simplefilter("ignore")

src_gbox = GeoBox.from_bbox((-60, 30, 60, 80), "epsg:4326", resolution=0.5)
dst_gbox = GeoBox.from_bbox((2e6, 1e6, 7e6, 5.5e6), "epsg:3035", resolution=25_000)

# all source values are >= 1, no nodata configured -> fill value is 0
data = np.random.default_rng(0).integers(1, 200, size=src_gbox.shape.yx).astype("int16")
xx = wrap_xr(data, src_gbox)

ref = xx.odc.reproject(dst_gbox, resampling="nearest").values
n_data = int((ref != 0).sum())
print(f"src {src_gbox.shape.yx} -> dst {dst_gbox.shape.yx}; in-memory result has {n_data} data pixels")

worst = 0
for sch, dch in [((100, 240), (180, 200)), ((25, 40), (180, 200)), ((25, 40), (90, 100)), ((10, 10), (180, 200))]:
    got = (
        xx.chunk({"latitude": sch[0], "longitude": sch[1]})
        .odc.reproject(dst_gbox, resampling="nearest", chunks=dch)
        .compute(scheduler="synchronous")
        .values
    )
    lost = int(((ref != 0) & (got == 0)).sum())
    spurious = int(((ref == 0) & (got != 0)).sum())
    worst = max(worst, lost)
    print(f"src chunks {sch} dst chunks {dch}: data in memory but fill in dask: {lost}; fill in memory but data in dask: {spurious}")

print("expected: the set of filled pixels does not depend on the chunking (<= a few border pixels)")
print(f"observed: up to {worst} of {n_data} data pixels replaced by fill")
assert worst <= 5, f"{worst} destination pixels reached by source pixels hold the fill value in the chunked result"
