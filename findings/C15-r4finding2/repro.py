"""
C15 finding 2: for legal CRSs that GeoTIFF keys cannot express (rotated-pole grids used by
regional climate / weather models, Equal Earth / Hammer / ... given as PROJ or WKT, 3D projected
CRSs) to_cog() silently returns a COG WITHOUT ANY CRS, and write_cog() writes a TIFF without CRS
plus a stray `<name>.tif.aux.xml` side-car next to the destination.  No exception, no warning.

Run:  PYTHONPATH=/tmp/seed/C15 /venv/bin/python repro.py
"""
import os
import shutil
import tempfile
import warnings

import numpy as np
import pyproj
import rasterio
from affine import Affine
from rasterio.io import MemoryFile

from odc.geo import CRS
from odc.geo.cog import to_cog, write_cog
from odc.geo.geobox import GeoBox
from odc.geo.xr import wrap_xr

CASES = {
    # CORDEX EUR-11 style rotated pole grid (0.11 degree)
    "rotated pole": (
        "+proj=ob_tran +o_proj=longlat +o_lon_p=0 +o_lat_p=39.25 +lon_0=18 +datum=WGS84 +no_defs",
        Affine(0.11, 0, -28.375, 0, -0.11, 21.835),
    ),
    # Equal Earth spelled as PROJ string (the same CRS spelled EPSG:8857 survives)
    "equal earth (proj)": (
        "+proj=eqearth +lon_0=0 +datum=WGS84 +units=m +no_defs",
        Affine(1000, 0, -500000, 0, -1000, 6000000),
    ),
    # control: ordinary CRS
    "utm 33N (control)": ("EPSG:32633", Affine(10, 0, 500000, 0, -10, 6000000)),
}

tmpd = tempfile.mkdtemp()
alone = tempfile.mkdtemp()
problems = []
try:
    for name, (spec, tr) in CASES.items():
        gbox = GeoBox((20, 30), tr, CRS(spec))
        xx = wrap_xr(np.arange(600, dtype="int16").reshape(20, 30), gbox)
        crs = xx.odc.geobox.crs  # the CRS the writer gets to see
        assert crs is not None and crs._crs.equals(gbox.crs._crs, ignore_axis_order=True)

        with warnings.catch_warnings(record=True) as ww:
            warnings.simplefilter("always")
            bb = to_cog(xx)  # memory destination
            fn = os.path.join(tmpd, "out.tif")
            write_cog(xx, fn, overwrite=True)  # file destination
        ww = [w for w in ww if "matmul" not in str(w.message)]

        with MemoryFile(bb) as mf, mf.open() as src:
            mem_crs = src.crs
            assert np.array_equal(src.read(1), xx.data) and src.transform == xx.odc.geobox.transform
        sidecars = sorted(f for f in os.listdir(tmpd) if f != "out.tif")
        # the COG on its own (what gets uploaded / handed on), without side-car files
        shutil.copy(fn, os.path.join(alone, "out.tif"))
        with rasterio.open(os.path.join(alone, "out.tif")) as src:
            file_crs = src.crs
        for f in os.listdir(tmpd):
            if os.path.isfile(os.path.join(tmpd, f)):
                os.unlink(os.path.join(tmpd, f))

        def same(rio_crs):
            return rio_crs is not None and pyproj.CRS(rio_crs.to_wkt()).equals(
                crs._crs, ignore_axis_order=True
            )

        print(f"[{name}]  CRS({spec!r})")
        print(f"   expected : CRS read back equal to the geobox CRS ({crs._crs.type_name}), no side-car files")
        print(f"   observed : to_cog -> crs={None if mem_crs is None else mem_crs.to_string()[:50]!r};"
              f" write_cog -> crs of the tif={None if file_crs is None else file_crs.to_string()[:50]!r},"
              f" side-cars written={sidecars}; python warnings={[str(w.message)[:60] for w in ww]}")
        if not same(mem_crs):
            problems.append(f"{name}: to_cog lost the CRS")
        if not same(file_crs):
            problems.append(f"{name}: write_cog tif has no CRS")
        if sidecars:
            problems.append(f"{name}: write_cog left side-car {sidecars}")
finally:
    shutil.rmtree(tmpd, ignore_errors=True)
    shutil.rmtree(alone, ignore_errors=True)

print()
assert not problems, "CRS does not survive the COG round trip: " + "; ".join(problems)
print("all CRSs survived")
