"""
GridSpec.web_tiles(zoom) does not reproduce the standard slippy-map tile extents.

Oracle: exact rational arithmetic.  The Web-Mercator world is the square [-W, W]^2 with
W = pi * 6378137 (the same double constant the library uses); tile (x, y) at zoom z covers
    [-W + x*S, -W + (x+1)*S]  x  [W - (y+1)*S, W - y*S],   S = 2*W / 2**z      (mercantile.xy_bounds)
and there are exactly 2**z tiles per side.
"""
import math
from fractions import Fraction as F

from odc.geo.geom import BoundingBox
from odc.geo.gridspec import GridSpec

R = 6378137
W = F(math.pi) * R  # exact value of the double constant


def std_bounds(x, y, z):
    S = 2 * W / 2**z
    return (-W + x * S, W - (y + 1) * S, -W + (x + 1) * S, W - y * S)


problems = []

# 1. everyday zoom: extents are off by far more than the 1e-8 contact tolerance of tile queries,
#    so a query with the exact extent of ONE standard tile returns FOUR tiles
for z, x, y in [(6, 40, 50), (12, 3548, 2571), (18, 236813, 117165)]:
    gs = GridSpec.web_tiles(z)
    exp = std_bounds(x, y, z)
    got = gs[x, y].boundingbox.bbox
    err = max(abs(F(g) - e) for g, e in zip(got, exp))
    q = BoundingBox(*(float(e) for e in exp), "epsg:3857")  # correctly rounded standard extent
    tiles = [idx for idx, _ in gs.tiles(q)]
    print(f"zoom {z} tile ({x},{y}):")
    print(f"   expected extent {[float(e) for e in exp]}")
    print(f"   observed extent {list(got)}   max error {float(err):.3g} m (ulp here is 3.7e-9)")
    print(f"   tiles(standard extent of that tile): expected [({x}, {y})], observed {tiles}")
    if err > 1e-8:
        problems.append(f"z={z}: extent error {float(err):.3g} m > 1e-8")
    if tiles != [(x, y)]:
        problems.append(f"z={z}: query with the tile's standard extent returned {len(tiles)} tiles")

# 2. high zoom: error grows linearly with the tile index and exceeds whole pixels / whole tiles
for z in (22, 25, 27, 30):
    gs = GridSpec.web_tiles(z)
    n = 2**z
    x = y = n - 1  # bottom-right tile
    exp = std_bounds(x, y, z)
    got = gs[x, y].boundingbox.bbox
    err = float(max(abs(F(g) - e) for g, e in zip(got, exp)))
    S = float(2 * W / n)
    # centre of the last standard tile must be in tile n-1 (2**z tiles per side)
    cx, cy = float(W) - S / 2, -float(W) + S / 2
    idx = gs.pt2idx(cx, cy)
    print(
        f"zoom {z}: bottom-right tile extent error {err:.3g} m = {err / (S / 256):.3g} pixels = {err / S:.3g} tiles;"
        f" index of the centre of the last standard tile: expected ({n-1},{n-1}) observed ({idx.x},{idx.y})"
    )
    if err > S / 256 / 100:
        problems.append(f"z={z}: extent off by {err / (S / 256):.3g} pixels")
    if (idx.x, idx.y) != (n - 1, n - 1):
        problems.append(f"z={z}: grid does not have 2**z tiles per side, last tile centre -> {tuple(idx.xy)}")

print()
for p in problems:
    print("VIOLATION:", p)
assert not problems, f"{len(problems)} violations of the slippy-map contract"
print("OK")
