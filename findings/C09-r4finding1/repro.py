"""
C09: wrap -> .odc.geobox (and reproject -> .odc.geobox) does not return an *equal* GeoBox
for ordinary axis-aligned grids whose resolution/origin are not binary-exact
(1 arc-second tiles, 0.00025 deg, 0.05 deg, web-mercator tiles, 0.002 deg, ...).

The affine is rebuilt from the first/last axis label ((last-first)/(n-1), first-res/2),
which re-introduces rounding, although the exact transform sits right next to it in
spatial_ref.attrs["GeoTransform"].  GeoBox.__eq__ compares affines exactly.
"""
import warnings

import numpy as np
from affine import Affine

from odc.geo.geobox import GeoBox
from odc.geo.xr import xr_zeros, xr_reproject

warnings.simplefilter("ignore")

R = 152.8740565703525  # web-mercator zoom 10
cases = {
    "SRTM 1-arcsec 1x1 deg tile": GeoBox.from_bbox((147, -36, 148, -35), "EPSG:4326", shape=(3600, 3600)),
    "3-arcsec tile": GeoBox.from_bbox((10, 45, 11, 46), "EPSG:4326", shape=(1200, 1200)),
    "0.00025 deg tile": GeoBox.from_bbox((147, -36, 148, -35), "EPSG:4326", resolution=0.00025),
    "0.05 deg quasi-global (CHIRPS grid)": GeoBox.from_bbox((-180, -50, 180, 50), "EPSG:4326", resolution=0.05),
    "web-mercator z10 256x256 tile": GeoBox((256, 256), Affine(R, 0, -20037508.342789244 + 300 * 256 * R, 0, -R, 20037508.342789244 - 400 * 256 * R), "EPSG:3857"),
    "0.002 deg, origin 147/-35.24": GeoBox((70, 90), Affine(0.002, 0, 147, 0, -0.002, -35.24), "EPSG:4326"),
}

bad = []
for name, g in cases.items():
    xx = xr_zeros(g, dtype="uint8")
    got = xx.odc.geobox
    ok = got == g
    print(f"[wrap] {name:38s} equal={ok}")
    if not ok:
        print("        expected affine:", tuple(g.affine)[:6])
        print("        observed affine:", tuple(got.affine)[:6])
        print("        GeoTransform attr:", xx.spatial_ref.attrs["GeoTransform"])
        bad.append(("wrap", name))
    # informational only (the statement promises pixel locations, not == for slices)
    sl = np.s_[3:40, 5:50]
    if xx[sl].odc.geobox != g[sl]:
        print(f"        (info) xx[3:40,5:50].odc.geobox != geobox[3:40,5:50] as well")

# reprojection: recovered geobox must equal the requested destination geobox
src = xr_zeros(GeoBox((100, 120), Affine(100, 0, 500000, 0, -100, 6100000), "EPSG:32755"), dtype="int16")
dst = cases["0.002 deg, origin 147/-35.24"]
for what, obj in (("DataArray", src), ("Dataset", src.to_dataset(name="a"))):
    out = xr_reproject(obj, dst)
    ok = out.odc.geobox == dst
    print(f"[reproject {what}] recovered geobox equals requested destination: {ok}")
    if not ok:
        print("        requested:", tuple(dst.affine)[:6])
        print("        recovered:", tuple(out.odc.geobox.affine)[:6])
        bad.append(("reproject", what))

assert not bad, f"expected .odc.geobox == the GeoBox that was wrapped/requested; not equal for: {bad}"
