"""
GridSpec.web_tiles(zoom) crashes for a numpy-integer zoom level >= 2.

Zoom levels that come out of numpy (np.arange, np.ceil(np.log2(..)).astype(int), an xarray/pandas
column, ...) are numpy integers.  The statement promises the slippy-map grid "for all zoom levels";
a numpy integer zoom is the same zoom level as the python integer.
"""
import numpy as np

from odc.geo.gridspec import GridSpec

failures = []
for zoom in [np.int64(0), np.int64(1), np.int64(2), np.int32(7), np.int64(12), np.uint8(3)]:
    expected = GridSpec.web_tiles(int(zoom))
    n = 2 ** int(zoom)
    try:
        got = GridSpec.web_tiles(zoom)
    except Exception as e:  # pylint: disable=broad-except
        print(f"web_tiles({zoom!r}): expected same grid as web_tiles({int(zoom)}), observed {type(e).__name__}: {e}")
        failures.append(zoom)
        continue
    same = got[n - 1, n - 1].boundingbox == expected[n - 1, n - 1].boundingbox
    print(f"web_tiles({zoom!r}): ok, same last tile as web_tiles({int(zoom)}): {same}")
    if not same:
        failures.append(zoom)

# the loop everybody writes
try:
    grids = [GridSpec.web_tiles(z) for z in np.arange(0, 6)]
    print("pyramid of 6 zoom levels built:", len(grids))
except Exception as e:  # pylint: disable=broad-except
    print(f"[GridSpec.web_tiles(z) for z in np.arange(0, 6)]: expected 6 grids, observed {type(e).__name__}: {e}")
    failures.append("arange")

assert not failures, f"web_tiles failed for numpy integer zoom levels: {failures}"
print("OK")
