"""
C15 finding 1: a band-first (band, y, x) image whose band count equals its
height and width (an N x N x N cube) is silently treated as band-last by the
GDAL COG writer, so the file contains scrambled bands.
"""
import warnings

warnings.simplefilter("ignore")

import numpy as np
import xarray as xr
from affine import Affine
from rasterio.io import MemoryFile

from odc.geo.cog import to_cog
from odc.geo.geobox import GeoBox
from odc.geo.xr import xr_coords

N = 4
gbox = GeoBox((N, N), Affine(10, 0, 500000, 0, -10, 6000000), "epsg:32633")
pix = np.arange(N * N * N, dtype="int16").reshape(N, N, N)  # (band, y, x)
xx = xr.DataArray(pix, dims=("band", "y", "x"), coords=xr_coords(gbox))
assert xx.odc.geobox == gbox
assert xx.odc.ydim == 1  # xarray knows perfectly well that this is band-first

# control: same thing with one band fewer works fine
ctl = xx[: N - 1]
with MemoryFile(to_cog(ctl)) as mem, mem.open() as src:
    assert np.array_equal(src.read(), ctl.data), "control (N-1 bands) failed"

with MemoryFile(to_cog(xx)) as mem, mem.open() as src:
    got = src.read()

print("expected band 1 (pix[0]):\n", pix[0])
print("observed band 1:\n", got[0])
print("observed band 1 equals pix[:, :, 0] (i.e. treated as band-last):", np.array_equal(got[0], pix[:, :, 0]))
assert np.array_equal(got, pix), "band-first N x N x N cube does not read back identical"
