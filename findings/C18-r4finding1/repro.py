"""
C18 - MPUFileSink: two sinks whose destinations have the same file name (different directories)
and that use the same ``parts_base`` share ONE parts directory and the same part file names.

Contract (property C18): finalise produces a destination file equal to the concatenation of the
parts in the order given, and removes its temporary parts - for all parts-directory placements.

Deterministic sequence (what ``dask.compute(da, db)`` of two ``save_cog_with_dask(..., parts_base=scratch)``
graphs does in some order; second half of this script shows the same through mpu_write + threads).
"""
import shutil
import sys
import tempfile
from pathlib import Path

from odc.geo.cog._mpu_fs import MPUFileSink

root = Path(tempfile.mkdtemp(prefix="c18_f1_"))
failures = []
try:
    (root / "2020").mkdir()
    (root / "2021").mkdir()
    scratch = root / "scratch"
    scratch.mkdir()

    dst_a = root / "2020" / "red.tif"
    dst_b = root / "2021" / "red.tif"
    a = MPUFileSink(dst_a, parts_base=scratch)
    b = MPUFileSink(dst_b, parts_base=scratch)
    print("parts dir of sink A:", a._parts_dir)
    print("parts dir of sink B:", b._parts_dir)

    data_a = {1: b"A-header|", 2: b"A-part-2|" * 1000, 3: b"A-part-3|" * 1000}
    data_b = {1: b"B-header|", 2: b"B-part-2|" * 1000, 3: b"B-part-3|" * 1000}

    # data parts are written first (any order), header part (number 1) last - as mpu_write does
    parts_a, parts_b = {}, {}
    for n in (2, 3):
        parts_a[n] = a(n, data_a[n])
        parts_b[n] = b(n, data_b[n])
    parts_a[1] = a(1, data_a[1])
    parts_b[1] = b(1, data_b[1])

    expect_a = b"".join(data_a[n] for n in (1, 2, 3))
    expect_b = b"".join(data_b[n] for n in (1, 2, 3))

    out_a = a.finalise([parts_a[n] for n in (1, 2, 3)])
    got_a = Path(out_a).read_bytes()
    print("expected A :", expect_a[:30], "... len", len(expect_a))
    print("observed A :", got_a[:30], "... len", len(got_a))
    if got_a != expect_a:
        failures.append("destination of sink A is not the concatenation of the parts written through sink A")

    try:
        out_b = b.finalise([parts_b[n] for n in (1, 2, 3)])
        got_b = Path(out_b).read_bytes()
        print("observed B :", got_b[:30], "... len", len(got_b))
        if got_b != expect_b:
            failures.append("destination of sink B is not the concatenation of its parts")
    except Exception as e:  # pylint: disable=broad-except
        print("expected B : finalise returns", dst_b)
        print("observed B : finalise raised", repr(e))
        failures.append(f"finalise of sink B raised {e!r}")
finally:
    shutil.rmtree(root, ignore_errors=True)

# ---- same thing through the public graph builder, threaded scheduler
root = Path(tempfile.mkdtemp(prefix="c18_f1_"))
try:
    import dask
    import dask.bag

    from odc.geo.cog._mpu import mpu_write

    (root / "2020").mkdir()
    (root / "2021").mkdir()
    (root / "scratch").mkdir()

    def gen(tag, i):
        return [(bytes([tag + i]) * 10_000, i)]

    def bag(tag):
        return dask.bag.from_delayed([dask.delayed(gen)(tag, i) for i in range(6)])

    da = mpu_write(bag(0), MPUFileSink(root / "2020" / "red.tif", parts_base=root / "scratch"), spill_sz=4096)
    db = mpu_write(bag(100), MPUFileSink(root / "2021" / "red.tif", parts_base=root / "scratch"), spill_sz=4096)
    want = {
        root / "2020" / "red.tif": b"".join(bytes([i]) * 10_000 for i in range(6)),
        root / "2021" / "red.tif": b"".join(bytes([100 + i]) * 10_000 for i in range(6)),
    }
    try:
        dask.compute(da, db, scheduler="threads")
        for p, e in want.items():
            ok = p.exists() and p.read_bytes() == e
            print("graph run:", p.relative_to(root), "content as expected:", ok)
            if not ok:
                failures.append(f"graph run: {p.relative_to(root)} wrong or missing")
    except Exception as e:  # pylint: disable=broad-except
        print("graph run: expected two files, observed exception", repr(e))
        failures.append(f"graph run raised {e!r}")
finally:
    shutil.rmtree(root, ignore_errors=True)

if failures:
    print("\nFAIL:")
    for f in failures:
        print(" -", f)
    sys.exit(1)
print("OK")
