"""
C20 / Poly2d.fit: exactly affine GCP mapping is NOT reproduced when >= 9 points are supplied in a
layout that determines an affine (and a bilinear) map uniquely but not a bi-quadratic one.

Poly2d.fit() chooses the model by point COUNT only (N>=9 -> 9-term bi-quadratic, N>=4 -> bilinear).
When the design matrix of the chosen model is rank deficient, lstsq(rcond=-1) silently returns the
minimum-norm solution, which is not the affine map: it matches at the control points and is off by
kilometres in between.  Adding control points makes the answer worse: 2x4 grid (8 pts) is exact,
2x5 grid (10 pts) is wrong by ~20 km (~2000 px).
"""
import sys

import numpy as np
from affine import Affine

from odc.geo.math import Poly2d

# pixel -> world, plain north-up 10m UTM-like grid: exactly representable by every model in Poly2d
A = Affine.translation(399960, 4900020) * Affine.scale(10, -10)


def wld_of(pix):
    pix = np.asarray(pix, dtype="float64")
    return np.stack(A * (pix[:, 0], pix[:, 1]), axis=1)


def grid(nx, ny, W=10000, H=8000):
    gx, gy = np.meshgrid(np.linspace(0, W, nx), np.linspace(0, H, ny))
    return np.stack([gx.ravel(), gy.ravel()], axis=1)


# test points strictly inside the convex hull of every layout below
probe = np.asarray(
    [[5000.0, 4000.0], [2500.0, 1000.0], [7500.0, 7900.0], [100.0, 100.0], [9000.0, 4000.0]]
)
probe_wld = wld_of(probe)

layouts = {
    # control: same geometry, 8 points -> bilinear model -> exact
    "2 columns x 4 rows (8 GCPs, control)": grid(2, 4),
    # one more row of GCPs -> bi-quadratic model, rank 6 of 9
    "2 columns x 5 rows (10 GCPs)": grid(2, 5),
    "5 columns x 2 rows (10 GCPs)": grid(5, 2),
    # GCPs along the image outline only (not symmetric about the centre), 12 points, rank 8 of 9
    "image outline, 12 GCPs": np.asarray(
        [
            [0, 0], [1000, 0], [7000, 0], [10000, 0],
            [10000, 3000], [10000, 4000], [10000, 8000],
            [7000, 8000], [6000, 8000], [0, 8000],
            [0, 7000], [0, 3000],
        ],
        dtype="float64",
    ),
    # closed ring around a 3x3 outline: 9 rows, 8 distinct points
    "closed ring of 8 outline points (9 rows)": np.asarray(
        [
            [0, 0], [5000, 0], [10000, 0], [10000, 4000], [10000, 8000],
            [5000, 8000], [0, 8000], [0, 4000], [0, 0],
        ],
        dtype="float64",
    ),
    # bilinear branch, GCPs along the top and the left edge only (5 points, affine is determined)
    "L shape along top+left edge (5 GCPs)": np.asarray(
        [[0, 0], [5000, 0], [10000, 0], [0, 4000], [0, 8000]], dtype="float64"
    ),
}

# the L layout's hull is the triangle (0,0)-(10000,0)-(0,8000)
probes = {name: probe for name in layouts}
probes["L shape along top+left edge (5 GCPs)"] = np.asarray(
    [[2500.0, 1000.0], [100.0, 100.0], [3000.0, 3000.0], [1000.0, 6000.0]]
)

TOL_M = 1e-3  # 1 mm; float64 round-off for these magnitudes is ~1e-9 m
failed = []
for name, pix in layouts.items():
    wld = wld_of(pix)
    probe = probes[name]
    probe_wld = wld_of(probe)
    p2w = Poly2d.fit(pix, wld)
    w2p = Poly2d.fit(wld, pix)
    err_at = np.abs(p2w(pix) - wld).max()
    err_in = np.abs(p2w(probe) - probe_wld).max()
    err_in_px = np.abs(w2p(probe_wld) - probe).max()
    # affine is uniquely determined by every layout: rank of [1 x y] is 3
    rank_affine = np.linalg.matrix_rank(np.c_[np.ones(len(pix)), pix])
    status = "ok" if err_in < TOL_M else "WRONG"
    print(
        f"{name:45s} affine-rank={rank_affine} | pix->wld error at GCPs {err_at:.2e} m,"
        f" inside hull {err_in:.3e} m | wld->pix inside hull {err_in_px:.3e} px  [{status}]"
    )
    if err_in >= TOL_M:
        failed.append((name, err_in, err_in_px))

print()
print("expected: an exactly affine pixel<->world mapping sampled at GCPs that determine it uniquely")
print(f"          is reproduced everywhere inside the GCP hull (error < {TOL_M} m)")
if failed:
    print("observed:")
    for name, e, epx in failed:
        print(f"   {name}: off by {e:.1f} m ({epx:.1f} px) between the GCPs")
    sys.exit(1)
print("observed: all layouts reproduced")
