"""
C11: "with an explicit shape the result has that shape (or that longest side)", and an
explicit resolution is one of the resolution-driven request kinds that must produce an
enclosing grid.

When the longest-side pixel count or the resolution arrives as a numpy scalar
(np.int64 from ``max(arr.shape)``-style arithmetic, ``df['gsd'].min()`` from pandas,
np.float32 from float32 coordinate differences, ...) compute_output_geobox /
GeoBox.to_crs raise ValueError instead, while the equal python number works
(np.float64 only works because it subclasses float).
"""
import sys
import warnings

import numpy as np
from affine import Affine

warnings.filterwarnings("ignore")

from odc.geo.geobox import GeoBox

src = GeoBox((300, 400), Affine(30, 0, 500000, 0, -30, 6000000), "EPSG:32755")

ref_shape = src.to_crs("EPSG:4326", shape=256)
ref_res = src.to_crs("EPSG:3577", resolution=30)
print("python int  shape=256       ->", tuple(ref_shape.shape))
print("python int  resolution=30   ->", tuple(ref_res.shape), ref_res.resolution)

requests = [
    ("shape=np.int64(256)", "EPSG:4326", dict(shape=np.int64(256)), ref_shape),
    ("shape=np.int32(256)", "EPSG:4326", dict(shape=np.int32(256)), ref_shape),
    ("resolution=np.int64(30)", "EPSG:3577", dict(resolution=np.int64(30)), ref_res),
    ("resolution=np.float32(30)", "EPSG:3577", dict(resolution=np.float32(30)), ref_res),
    ("resolution=np.float64(30)", "EPSG:3577", dict(resolution=np.float64(30)), ref_res),
]

bad = 0
for label, crs, kw, ref in requests:
    try:
        out = src.to_crs(crs, **kw)
    except Exception as e:  # pylint: disable=broad-except
        bad += 1
        print(f"{label:28s} expected {tuple(ref.shape)} like the python number, observed {type(e).__name__}: {e}")
        continue
    same = out == ref
    print(f"{label:28s} -> {tuple(out.shape)} equal_to_python_number_result={same}")
    if not same:
        bad += 1

if bad:
    print(f"FAIL: {bad} numpy-scalar requests did not produce the grid the equal python number gives")
    sys.exit(1)
print("ok")
