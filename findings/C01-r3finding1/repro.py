"""
C01 - CRS guard outcome depends on hidden lazy state of the CRS object.

The same call  a.intersects(b)  /  bbox_a | bbox_b  /  gbox_a | gbox_b  first raises
CRSMismatchError and, after somebody merely *read*  b.crs.epsg  (a read-only property,
also read internally by odc.geo.xr.xr_coords / xr_zeros / assign_crs), returns a result.

One of the two outcomes must be wrong: either the CRSs are "equal, spelled differently"
(then the first call must not raise) or they differ (then the second call silently
combined coordinates of two reference systems).
"""
import warnings

warnings.filterwarnings("ignore")

import pyproj

from odc.geo.crs import CRS
from odc.geo.geobox import GeoBox
from odc.geo.geom import BoundingBox, box, unary_union
from odc.geo.xr import xr_coords

# what every WGS84 shapefile carries in its .prj
ESRI_WGS84 = pyproj.CRS(4326).to_wkt("WKT1_ESRI")
# PROJ4 spelling of EPSG:3577 (GDA94 Australian Albers) - pyproj's to_epsg() identifies it,
# with 70% confidence, as EPSG:9473 (GDA2020 Australian Albers, a different datum)
PROJ4_3577 = pyproj.CRS(3577).to_proj4()


def outcome(fn):
    try:
        return ("ok", repr(fn()))
    except ValueError as e:
        return ("raised", type(e).__name__)


failures = []


def check(title, ref_spec, other_spec, fill):
    # fresh CRS objects: _epsg slot of `other` is still EPSG_UNSET
    ref, other = CRS(ref_spec), CRS(other_spec)
    a, b = box(0, 0, 2, 2, ref), box(1, 1, 3, 3, other)
    ba, bb = BoundingBox(0, 0, 2, 2, ref), BoundingBox(1, 1, 3, 3, other)
    ga = GeoBox.from_bbox((0, 0, 2, 2), ref, resolution=1)
    gb = GeoBox.from_bbox((1, 1, 3, 3), other, resolution=1)

    calls = {
        "Geometry.intersects": lambda: a.intersects(b),
        "Geometry.__and__": lambda: (a & b).crs,
        "unary_union": lambda: unary_union([a, b]).crs,
        "BoundingBox.__or__": lambda: (ba | bb),
        "GeoBox.__or__": lambda: (ga | gb).shape,
        "GeoBox.overlap_roi": lambda: ga.overlap_roi(gb),
        "CRS.__eq__": lambda: ref == other,
    }
    before = {k: outcome(fn) for k, fn in calls.items()}
    fill(other, gb)  # no mutation requested by the user, only a read
    after = {k: outcome(fn) for k, fn in calls.items()}

    print(f"--- {title}")
    for k in calls:
        flag = "" if before[k] == after[k] else "   <-- outcome changed"
        print(f"  {k:22s} before: {before[k]}   after: {after[k]}{flag}")
        if before[k] != after[k]:
            failures.append((title, k, before[k], after[k]))


check(
    "EPSG:4326 vs ESRI WKT of WGS84, after reading other.epsg",
    "EPSG:4326",
    ESRI_WGS84,
    lambda crs, gbox: crs.epsg,
)
check(
    "EPSG:4326 vs '+proj=longlat +datum=WGS84', after xr_coords(geobox) (ordinary xarray use)",
    "EPSG:4326",
    "+proj=longlat +datum=WGS84 +no_defs",
    lambda crs, gbox: xr_coords(gbox),
)
check(
    "EPSG:9473 (GDA2020 Albers) vs PROJ4 string of EPSG:3577 (GDA94 Albers), after reading other.epsg",
    "EPSG:9473",
    PROJ4_3577,
    lambda crs, gbox: crs.epsg,
)

print()
print("expected: the outcome of a combining operation is determined by the operands' CRSs only,")
print("          i.e. identical before and after reading the read-only property CRS.epsg")
print(f"observed: {len(failures)} (operation, CRS pair) combinations flipped from")
print("          CRSMismatchError to a silently computed result")
assert not failures, failures[0]
