"""
C11: "when source and target CRS share units the default resolution is the source resolution".

Polar stereographic CRSs (EPSG:3413, EPSG:3031, EPSG:3976, EPSG:32661, EPSG:32761, ...) have both
axes pointing the same way ("south","south" or "north","north").  CRS.units collapses those two axes
into a single dict key and reports ('metre', '') for them, so compute_output_geobox decides that a
metre based polar raster and a metre based UTM/Mercator/equal-area target do NOT share units and
falls into the "fit" branch instead of copying the source resolution.
"""
import sys
import warnings

warnings.filterwarnings("ignore")

from odc.geo.crs import CRS
from odc.geo.geobox import GeoBox
from odc.geo.overlap import compute_output_geobox

failures = []

print("axis units as pyproj reports them / as odc.geo reports them")
for epsg in (3413, 3031, 32633):
    c = CRS(epsg)
    print(f"  EPSG:{epsg}: pyproj={[a.unit_name for a in c.proj.axis_info]}  odc.geo.units={c.units}")

# 1. Greenland tile in NSIDC polar stereographic north (metres), 100 m pixels  ->  'utm' (metres)
src = GeoBox.from_bbox((-200_000, -2_300_000, -100_000, -2_200_000), "epsg:3413", resolution=100)
for crs in ("utm", "epsg:3857", "epsg:6933"):
    dst = compute_output_geobox(src, crs)
    print(f"src EPSG:3413 res={src.resolution.xy} -> {crs} ({dst.crs}) : expected resolution {src.resolution.xy}, observed {dst.resolution.xy}")
    if dst.resolution != src.resolution:
        failures.append((str(src.crs), crs, dst.resolution.xy))

# 2. the other direction: UTM tile in Antarctica (metres) -> Antarctic polar stereographic (metres)
src = GeoBox.from_bbox((400_000, 1_900_000, 500_000, 2_000_000), "epsg:32721", resolution=30)
dst = src.to_crs("epsg:3031")
print(f"src EPSG:32721 res={src.resolution.xy} -> EPSG:3031 : expected resolution {src.resolution.xy}, observed {dst.resolution.xy}")
if dst.resolution != src.resolution:
    failures.append((str(src.crs), "epsg:3031", dst.resolution.xy))

if failures:
    print("FAIL: source and target are both metre based but the default resolution is not the source resolution:")
    for f in failures:
        print("   ", f)
    sys.exit(1)
print("OK")
