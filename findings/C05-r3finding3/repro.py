"""
C05 finding 3: a band-first (SYX) image whose WIDTH is 3 or 4 pixels is written as if it
were a pixel-interleaved RGB(A) image (YXS): the band axis is taken for Y, Y for X and
the X axis for samples.  No error is raised, the file has the wrong size, band count
and pixels.

Expected: a file with `nbands` bands of `ny x nx` pixels that decodes to the input
          (narrow images and the SYX axis order are both covered by the property).
Observed: e.g. 5 bands x 100 rows x 4 columns is stored as a 4-sample 5x100 image.
"""
import os
import tempfile
import warnings

import dask.array as da
import numpy as np
import rasterio
from affine import Affine

from odc.geo.cog import save_cog_with_dask
from odc.geo.geobox import GeoBox
from odc.geo.xr import wrap_xr

warnings.filterwarnings("ignore")

problems = []
for nb, (ny, nx) in [(5, (100, 4)), (2, (64, 3)), (5, (100, 5))]:
    gbox = GeoBox((ny, nx), Affine(10, 0, 1000, 0, -10, 5000), "epsg:3857")
    pix = np.arange(1, nb * ny * nx + 1, dtype="uint16").reshape((nb, ny, nx))
    xx = wrap_xr(da.from_array(pix, chunks=(1, 64, 64)), gbox, axis=1)
    assert xx.dims == ("time", "y", "x") and xx.odc.ydim == 1  # band-first DataArray
    with tempfile.TemporaryDirectory() as td:
        fname = os.path.join(td, "out.tif")
        save_cog_with_dask(xx, fname, blocksize=[112]).compute(scheduler="synchronous")
        with rasterio.open(fname) as src:
            got = src.read()
            info = f"count={src.count} height={src.height} width={src.width} interleave={src.profile.get('interleave')}"
    ok = got.shape[0] == nb and got.shape[1] >= ny and got.shape[2] >= nx and np.array_equal(got[:, :ny, :nx], pix)
    print(
        f"input bands={nb} ny={ny} nx={nx}: expected count={nb} height>={ny} width>={nx} and identical pixels; "
        f"observed {info}; pixels identical: {ok}"
    )
    if not ok:
        problems.append((nb, ny, nx, info))

assert not problems, f"band-first images of width 3/4 were written with the wrong layout: {problems}"
print("all good")
