"""
C04: region lookup from a tile index on a *variable-sized* tiling.

Contract (docstrings of Tiles/VariableSizedTiles.tile_shape and GeoboxTiles.__getitem__):
a (row, col) tile index is valid for -n <= i < n (numpy style from-the-right), anything else
raises IndexError.  Tiles (regular) honours this, VariableSizedTiles.tile_shape honours it,
VariableSizedTiles.__getitem__ (and therefore GeoboxTiles.__getitem__ / pix_bbox for a
chunk-tuple tiling) does not: indexes in [-2n-1, -n-1] silently return some other tile
(or a reversed, negative-size slice) instead of raising.
"""
import sys

import numpy as np
from affine import Affine

from odc.geo.geobox import GeoBox, GeoboxTiles
from odc.geo.roi import Tiles, VariableSizedTiles

chy, chx = (3, 3, 3, 1), (2, 2, 2, 1)
oy = np.cumsum([0, *chy]).tolist()
n = len(chy)

var = VariableSizedTiles((chy, chx))
reg = Tiles((10, 7), (3, 2))  # same partition, regular implementation
assert var.chunks == reg.chunks == (chy, chx)

gbox = GeoBox((10, 7), Affine(10, 0, 0, 0, -10, 0), "epsg:3857")
gbt = GeoboxTiles(gbox, (chy, chx))


def outcome(f):
    try:
        return f()
    except IndexError:
        return "IndexError"


bad = []
for i in range(-3 * n, 2 * n):
    if -n <= i < n:
        r = i % n
        expected = slice(oy[r], oy[r + 1])
    else:
        expected = "IndexError"

    got_reg = outcome(lambda: reg[i, 0][0])
    got_var = outcome(lambda: var[i, 0][0])
    got_var_shape = outcome(lambda: var.tile_shape((i, 0)).y)
    got_gbt = outcome(lambda: gbt[i, 0].shape.y)
    got_gbt_chunk = outcome(lambda: gbt.chunk_shape((i, 0)).y)

    assert got_reg == expected, ("regular tiling is the reference and is fine", i, got_reg)
    flag = ""
    if got_var != expected:
        flag = "  <-- WRONG"
        bad.append(i)
    print(
        f"row index {i:4d}: expected {str(expected):22s} Tiles -> {str(got_reg):22s} "
        f"VariableSizedTiles -> {str(got_var):22s} (tile_shape: {got_var_shape}; "
        f"GeoboxTiles[idx] rows: {got_gbt}, GeoboxTiles.chunk_shape: {got_gbt_chunk}){flag}"
    )

print()
if bad:
    print(
        f"FAIL: VariableSizedTiles.__getitem__ accepted out-of-range row indexes {bad} "
        f"(valid range is [{-n}, {n})) and returned a region of some other tile / a reversed slice; "
        "expected IndexError as raised by Tiles.__getitem__, VariableSizedTiles.tile_shape and "
        "GeoboxTiles.chunk_shape for the same index."
    )
    sys.exit(1)
print("OK")
