"""
roi_shape / roi_is_empty / roi_is_full do not describe the index set numpy selects.

 * roi_shape is documented as "Same as xx[roi].shape" but returns NEGATIVE sizes
   for empty slices written with start > stop, and for any slice with a
   from-the-end stop (it just subtracts the raw numbers, no error is raised).
 * roi_is_empty therefore calls s_[:-1] (all but the last element) empty.
 * roi_is_full only recognises the literal spellings 0/None .. n/None, so
   s_[-n:] or s_[0:n+1], which select every element, are reported as crops.
"""
import sys

import numpy as np

from odc.geo.roi import roi_is_empty, roi_is_full, roi_shape

fails = []


def check(what, expected, observed):
    ok = expected == observed
    print(f"{'ok  ' if ok else 'FAIL'} {what}: expected {expected!r} observed {observed!r}")
    if not ok:
        fails.append(what)


X = np.arange(10)

# reversed (empty) slice: perfectly normalised (no None, no negatives)
check("roi_shape(s_[5:3])", X[5:3].shape, roi_shape(np.s_[5:3]))
check("roi_shape(s_[2:8, 7:1])", np.zeros((10, 10))[2:8, 7:1].shape, roi_shape(np.s_[2:8, 7:1]))

# from-the-end stop: silently wrong instead of ValueError (cf. open-ended stop which raises)
check("roi_shape(s_[:-1]) on len 10", X[:-1].shape, roi_shape(np.s_[:-1]))
check("roi_is_empty(s_[:-1]) on len 10", X[:-1].size == 0, roi_is_empty(np.s_[:-1]))
check("roi_is_empty(s_[2:-2]) on len 10", X[2:-2].size == 0, roi_is_empty(np.s_[2:-2]))

# fullness
check("roi_is_full(s_[-10:], 10)", X[-10:].size == X.size, roi_is_full(np.s_[-10:], 10))
check("roi_is_full(s_[0:12], 10)", X[0:12].size == X.size, roi_is_full(np.s_[0:12], 10))
check("roi_is_full(s_[-10:, :], (10, 4))", True, roi_is_full(np.s_[-10:, :], (10, 4)))

sys.exit(1 if fails else 0)
