"""
C16: "union is the smallest GeoBox on that grid containing all operands", with pixel-set
semantics ("intersection is exactly the set of shared pixels (an empty GeoBox when there
are none)").

An EMPTY operand (0 rows and/or 0 columns - e.g. the result of `a & b` for disjoint a, b,
or an empty crop base[5:5, :]) has no pixels, so it must not enlarge a union. The library
takes the bounding box of the operands' *positions*, so empty operands stretch the union
towards wherever they happen to sit; the union of two empty geoboxes is a NON-empty geobox.
"""
import itertools
import sys

from affine import Affine

from odc.geo.geobox import GeoBox, geobox_union_conservative

base = GeoBox((100, 100), Affine(10, 0, 500000, 0, -10, 6000000), "epsg:32633")
failed = []


def pixels(g):
    """brute-force oracle: set of base-grid pixel indexes covered by g"""
    t = ~base.affine * g.affine
    tx, ty = round(t.c), round(t.f)
    ny, nx = g.shape
    return {(tx + i, ty + j) for i in range(nx) for j in range(ny)}


def smallest_cover(pix):
    """(x0, y0, ny, nx) of the smallest box holding `pix`; None when pix is empty"""
    if not pix:
        return None
    xs = [p[0] for p in pix]
    ys = [p[1] for p in pix]
    return (min(xs), min(ys), max(ys) - min(ys) + 1, max(xs) - min(xs) + 1)


def describe(g):
    if g.is_empty():
        return None
    t = ~base.affine * g.affine
    return (round(t.c), round(t.f), g.shape[0], g.shape[1])


def check(name, operands):
    want = smallest_cover(set().union(*[pixels(g) for g in operands]))
    got = describe(geobox_union_conservative(list(operands)))
    ok = want == got
    print(f"{'ok  ' if ok else 'FAIL'} {name}: expected (x0,y0,ny,nx)={want}, observed {got}")
    if not ok:
        failed.append(name)


a = base[0:10, 0:10]
b = base[50:60, 70:80]
c = base[20:30, 20:30]

# 1. intersection of disjoint boxes is (correctly) empty ...
e = a & b
assert e.is_empty() and pixels(e) == set()
print("a & b =", repr(e), "-> empty, as promised")
# ... but feeding it to a union drags the union to the corner where the empty box was parked
check("(a & b) | c", [e, c])
check("c | (a & b)", [c, e])

# 2. empty crops of the base
check("a | base[50:50, 70:80]", [a, base[50:50, 70:80]])
check("a | base[5:5, 3:3] (empty INSIDE a, harmless)", [a, base[5:5, 3:3]])

# 3. union of two empty geoboxes is not empty
e1, e2 = base[0:0, 0:10], base[40:40, 0:10]
u = e1 | e2
print("e1 | e2 =", repr(u))
check("base[0:0, 0:10] | base[40:40, 0:10]", [e1, e2])

# 4. systematic: every pair out of a small family with empty members
family = [
    GeoBox((ny, nx), base.affine * Affine.translation(tx, ty), base.crs)
    for tx, ty in [(0, 0), (7, -3), (-5, 9)]
    for ny, nx in [(0, 0), (0, 4), (3, 0), (2, 5)]
]
n = bad = 0
for p, q in itertools.permutations(family, 2):
    n += 1
    want = smallest_cover(pixels(p) | pixels(q))
    got = describe(p | q)
    bad += want != got
print(f"pairs with wrong union: {bad} of {n} (expected 0)")

if failed or bad:
    print("FAIL: union with empty operands is not the smallest geobox containing the operands")
    sys.exit(1)
print("OK")
