"""
C18 / file sink, parts-directory placement: when ``parts_base`` lives on a
different filesystem than the destination (the obvious reason to pass it: fast
local scratch / tmpfs for the parts, final file on shared or slow storage),
MPUFileSink.finalise crashes in ``p1.rename(dst)`` with
    OSError: [Errno 18] Invalid cross-device link
The destination is never produced and the temporary parts are left behind.

Expected: dst == concatenation of the parts, parts directory removed.
Observed: OSError(EXDEV) from finalise, dst missing, parts still on disk.
"""
import os
import shutil
import sys
import tempfile
from pathlib import Path

from odc.geo.cog._mpu_fs import MPUFileSink


def other_filesystem_dir(ref: Path) -> Path | None:
    ref_dev = os.stat(ref).st_dev
    for cand in ("/dev/shm", "/run/shm", "/var/tmp", "/tmp", str(Path.home()), "/run"):
        try:
            if os.stat(cand).st_dev != ref_dev and os.access(cand, os.W_OK):
                return Path(tempfile.mkdtemp(dir=cand))
        except OSError:
            continue
    return None


def main() -> int:
    dst_dir = Path(tempfile.mkdtemp())
    parts_base = other_filesystem_dir(dst_dir)
    if parts_base is None:
        print("SKIP: could not find a second writable filesystem on this machine")
        # cannot demonstrate here; do not claim a failure
        return 0

    dst = dst_dir / "out.bin"
    print(f"dst on device {os.stat(dst_dir).st_dev}: {dst}")
    print(f"parts_base on device {os.stat(parts_base).st_dev}: {parts_base}")
    try:
        sink = MPUFileSink(dst, parts_base)
        chunks = [b"part-1|", b"part-2|", b"part-3|"]
        parts = [sink(i + 1, data) for i, data in enumerate(chunks)]
        expected = b"".join(chunks)

        err = None
        try:
            rr = sink.finalise(parts)
        except Exception as e:  # pylint: disable=broad-except
            err = e

        print(f"expected: finalise returns {dst}, content {expected!r}, parts dir removed")
        if err is not None:
            print(f"observed: finalise raised {err!r}")
            print(f"          dst exists: {dst.exists()}")
            print(f"          parts left behind: {sorted(p.name for p in sink._parts_dir.iterdir())}")
        else:
            print(f"observed: returned {rr}, content {dst.read_bytes()!r}, "
                  f"parts dir exists: {sink._parts_dir.exists()}")

        assert err is None, f"finalise failed for parts_base on another filesystem: {err!r}"
        assert dst.read_bytes() == expected
        assert not sink._parts_dir.exists()
        return 0
    finally:
        shutil.rmtree(dst_dir, ignore_errors=True)
        shutil.rmtree(parts_base, ignore_errors=True)


if __name__ == "__main__":
    sys.exit(main())
