"""F90 (R-ISNUM scan, round 4): numpy scalar coordinates in geometry constructors."""
import sys
import numpy as np
from odc.geo import geom
try:
    g = geom.line([(np.float32(0), np.float32(1)), (np.int64(1), np.int64(2))], "epsg:4326")
    ok = list(g.coords) == [(0.0, 1.0), (1.0, 2.0)]
except Exception as e:  # pylint: disable=broad-except
    print("FAIL:", type(e).__name__, e); sys.exit(1)
print("ok" if ok else "FAIL"); sys.exit(0 if ok else 1)
