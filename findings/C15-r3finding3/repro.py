"""
C15 finding 3 (caused by the installed rasterio 1.5.1 / GDAL 3.12.4, surfaced
unchecked by odc-geo): for int64 / uint64 images a nodata value with
|nodata| >= 1e17 (e.g. the very common np.iinfo(int64).min, which is also
datetime64 NaT) does not read back: the file says nodata == -9.0 (or 1.0, -1.0,
or None), silently.
"""
import warnings

warnings.simplefilter("ignore")

import numpy as np
import xarray as xr
from affine import Affine
from rasterio.io import MemoryFile

from odc.geo.cog import to_cog
from odc.geo.geobox import GeoBox
from odc.geo.xr import xr_coords

gbox = GeoBox((40, 50), Affine(10, 0, 500000, 0, -10, 6000000), "epsg:32633")
failures = []

for dtype, nodata, kw in [
    ("int64", -9999, {}),  # control
    ("int64", int(np.iinfo("int64").min), {}),
    ("int64", int(np.iinfo("int64").min), {"overview_levels": [2]}),
    ("int64", int(np.iinfo("int64").max), {}),
    ("int64", -(10**17), {}),
    ("uint64", int(np.iinfo("uint64").max), {}),
]:
    pix = np.full(gbox.shape.yx, 7, dtype=dtype)
    pix[0, 0] = nodata
    xx = xr.DataArray(pix, dims=("y", "x"), coords=xr_coords(gbox), attrs={"nodata": nodata})
    with MemoryFile(to_cog(xx, **kw)) as mem, mem.open() as src:
        got = src.nodata
        assert np.array_equal(src.read(1), pix)
    ok = got is not None and int(got) == nodata
    print(f"{dtype} {kw} expected nodata {nodata}, observed {got!r} -> {'ok' if ok else 'WRONG'}")
    if not ok:
        failures.append((dtype, nodata, got))

assert not failures, f"nodata did not survive the round trip: {failures}"
