"""
C09: wrapping an array with a GCPGeoBox that has a non-identity affine (a crop gbox[roi],
.pad(), .zoom_out(), .zoom_to() of a GCP geobox - e.g. a window of a GCP-georeferenced scene)
and reading it back through .odc.geobox does NOT return an equal geobox.

Asymmetry that shows it:  wrap(full)[roi].odc.geobox == full[roi]   -> True
                          wrap(full[roi]).odc.geobox  == full[roi]   -> False
"""
import pickle
import warnings

import numpy as np
from affine import Affine

from odc.geo import xy_
from odc.geo.gcp import GCPGeoBox, GCPMapping
from odc.geo.xr import xr_zeros

warnings.simplefilter("ignore")

# 5x5 GCPs over a 100x80 scene, smooth non-linear pixel->lon/lat mapping
px, py = (a.ravel() for a in np.meshgrid(np.linspace(0, 100, 5), np.linspace(0, 80, 5)))
wx = 10 + 0.01 * px + 0.002 * py + 1e-6 * px * py + 2e-7 * px * px
wy = 50 - 0.01 * py + 0.001 * px - 1e-6 * px * py + 1e-7 * py * py
mapping = GCPMapping([xy_(x, y) for x, y in zip(px, py)], [xy_(x, y) for x, y in zip(wx, wy)], "EPSG:4326")
full = GCPGeoBox((80, 100), mapping)

roi = np.s_[16:48, 32:96]
variants = {
    "full scene (identity affine)": full,
    "crop  full[16:48, 32:96]": full[roi],
    "pad   full.pad(8)": full.pad(8),
    "zoom  full.zoom_out(2)": full.zoom_out(2),
    "direct GCPGeoBox(shape, mapping, Affine.translation(16, 8))": GCPGeoBox((10, 20), mapping, Affine.translation(16, 8)),
}

# sanity: these all compare equal to an unpickled clone of themselves (equality is by value)
for name, g in variants.items():
    assert pickle.loads(pickle.dumps(g)) == g, name

# wrap-then-slice is fine
assert xr_zeros(full, dtype="uint8")[roi].odc.geobox == full[roi]
print("wrap(full)[roi].odc.geobox == full[roi]: True   (reference behaviour)")

bad = []
for name, g in variants.items():
    xx = xr_zeros(g, dtype="uint8")
    got = xx.odc.geobox
    ok = got == g
    print(f"wrap({name}).odc.geobox == wrapped geobox: {ok}")
    if not ok:
        print("     wrapped : shape", tuple(g.shape), "affine", tuple(g._affine)[:6], "first GCP pix", g._mapping._pix[0].tolist())
        print("     observed: shape", tuple(got.shape), "affine", tuple(got._affine)[:6], "first GCP pix", got._mapping._pix[0].tolist())
        bad.append(name)

assert not bad, f"expected .odc.geobox to equal the wrapped GCPGeoBox; not equal for: {bad}"
