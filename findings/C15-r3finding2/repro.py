"""
C15 finding 2: write_cog(..., overviews=[...]) (externally supplied overviews,
i.e. write_cog_layers) to a *file* whose name does not end in .tif/.tiff either
crashes ("Unable to detect driver") or silently writes a non-GeoTIFF file
without overviews, because the final rasterio copy is done without
driver="GTiff".  The very same destination works for the no-overview and the
computed-overview code paths.  With overwrite=True the old file is deleted
before the crash.
"""
import pathlib
import sys
import tempfile
import warnings

warnings.simplefilter("ignore")

import numpy as np
import rasterio
import xarray as xr
from affine import Affine

from odc.geo.cog import write_cog
from odc.geo.geobox import GeoBox
from odc.geo.xr import xr_coords

gbox = GeoBox((100, 130), Affine(10, 0, 500000, 0, -10, 6000000), "epsg:32633")
rng = np.random.default_rng(0)


def mk(gb):
    return xr.DataArray(
        rng.integers(-100, 100, gb.shape.yx).astype("int16"),
        dims=("y", "x"),
        coords=xr_coords(gb),
        attrs={"nodata": -1},
    )


xx = mk(gbox)
ovr = mk(gbox.zoom_out(2))
tmp = pathlib.Path(tempfile.mkdtemp())
failures = []

for name in ["out.tif.tmp", "out.cog", "noext", "out.dat", "out.img"]:
    # control: computed overviews -> fine whatever the name is
    p = tmp / ("c_" + name)
    write_cog(xx, p, overview_levels=[2])
    with rasterio.open(p) as src:
        assert src.driver == "GTiff" and src.overviews(1) == [2]
        assert np.array_equal(src.read(1), xx.data)

    # externally supplied overviews
    p = tmp / name
    try:
        write_cog(xx, p, overviews=[ovr])
    except Exception as e:  # pylint: disable=broad-except
        msg = f"{name}: expected a GeoTIFF with overview [2]; observed crash {type(e).__name__}: {e}"
        print(msg)
        failures.append(msg)
        continue
    with rasterio.open(p) as src:
        drv, ov, nodata = src.driver, src.overviews(1), src.nodata
    if drv != "GTiff" or ov != [2] or nodata != -1:
        msg = f"{name}: expected driver=GTiff overviews=[2] nodata=-1; observed driver={drv} overviews={ov} nodata={nodata}"
        print(msg)
        failures.append(msg)

# overwrite=True: the existing file is gone after the failed call
p = tmp / "precious.tif.tmp"
p.write_bytes(b"old content")
try:
    write_cog(xx, p, overviews=[ovr], overwrite=True)
except Exception as e:  # pylint: disable=broad-except
    msg = f"overwrite=True: crash {type(e).__name__}; old file still exists: {p.exists()}"
    print(msg)
    failures.append(msg)

assert not failures, f"{len(failures)} destination names misbehave with external overviews"
