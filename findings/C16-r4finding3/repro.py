"""
C16: "union/intersection are commutative and associative".

On grids whose pixel size is not a binary fraction (the standard 0.00025 degree Landsat
lat/lon grid here, the same happens for 1/3600 degree or for rotated grids) the RESULT
depends on the order of the operands: `a | b != b | a`, `a & b != b & a`,
`(a | b) | c != a | (b | c)` under GeoBox.__eq__ (and hash, dask token, coordinates).
The results cover the same pixels but their affines differ in the last bits, because the
result is always positioned relative to whichever operand came first.
Visible consequence: rasters allocated on `a | b` and on `b | a` do not align in xarray.
"""
import sys

import numpy as np
from affine import Affine

from odc.geo.geobox import GeoBox
from odc.geo.xr import xr_zeros

base = GeoBox((4000, 4000), Affine(0.00025, 0, 147.0, 0, -0.00025, -35.0), "epsg:4326")

n = 0
bad = {"a|b == b|a": 0, "a&b == b&a": 0, "(a|b)|c == a|(b|c)": 0, "(a&b)&c == a&(b&c)": 0, "hash(a|b) == hash(b|a)": 0}
first = None
for y in range(0, 3700, 97):
    for x in range(0, 3700, 89):
        a = base[y : y + 100, x : x + 100]
        b = base[y + 37 : y + 137, x + 41 : x + 141]
        c = base[y + 11 : y + 151, x + 60 : x + 130]
        n += 1
        # sanity (pixel level): same shape, same location to within 1e-6 pixel
        u1, u2 = a | b, b | a
        assert u1.shape == u2.shape == (137, 141)
        t = ~u1.affine * u2.affine
        assert abs(t.c) < 1e-6 and abs(t.f) < 1e-6
        if u1 != u2:
            bad["a|b == b|a"] += 1
            first = first or (a, b)
        bad["hash(a|b) == hash(b|a)"] += hash(u1) != hash(u2)
        bad["a&b == b&a"] += (a & b) != (b & a)
        bad["(a|b)|c == a|(b|c)"] += ((a | b) | c) != (a | (b | c))
        bad["(a&b)&c == a&(b&c)"] += ((a & b) & c) != (a & (b & c))

print(f"{n} triples a, b, c cropped from one 0.00025 degree GeoBox (all on the same grid)")
for law, k in bad.items():
    print(f"   {law:26s}: expected to hold for all, observed violated in {k} of {n}")

a, b = first
print("example:")
print("   a     =", repr(a).replace("\n", ""))
print("   b     =", repr(b).replace("\n", ""))
print("   a | b =", repr(a | b).replace("\n", ""))
print("   b | a =", repr(b | a).replace("\n", ""))

# consequence: same mosaic footprint, rasters do not align
xa = xr_zeros(a | b, dtype="uint8")
xb = xr_zeros(b | a, dtype="uint8")
s = xa + xb
print(f"xr_zeros(a|b) + xr_zeros(b|a): expected shape {xa.shape}, observed {s.shape}")

if any(bad.values()) or s.shape != xa.shape:
    print("FAIL: union/intersection are not commutative/associative under GeoBox equality")
    sys.exit(1)
print("OK")
