"""C14: polygon query given in another CRS misses whole rows of overlapping tiles.

tiles_from_geopolygon() re-projects only the vertices of the query polygon
(no densification), so a lon/lat box queried against a projected grid is
replaced by the straight-edged quadrilateral through its 4 projected corners.
Parallels are arcs in Albers, hence tiles under the arc are lost.
"""
from odc.geo import geom
from odc.geo.gridspec import GridSpec

gs = GridSpec("epsg:3577", (4000, 4000), 25)  # Australian Albers, 100km tiles
query = geom.box(114, -40, 152, -12, "epsg:4326")

got = set(idx for idx, _ in gs.tiles_from_geopolygon(query))

# a point well inside the query (0.3 degree ~ 33km from its northern edge)
p = geom.point(132, -12.3, "epsg:4326")
assert query.contains(p)
x, y = p.to_crs(gs.crs).coords[0]
idx = gs.pt2idx(x, y).xy
tile_ll = gs[idx].extent.to_crs("epsg:4326", resolution=1000)
overlap = tile_ll.intersection(query).area / tile_ll.area
print(f"query point lon=132 lat=-12.3 lies in tile {idx}")
print(f"fraction of that tile's footprint inside the query: {overlap:.2f}")
print(f"expected: tile {idx} is returned by tiles_from_geopolygon(query)")
print(f"observed: returned={idx in got}  (query returned {len(got)} tiles)")

# how many tiles are lost: sample the query densely in its own CRS
need = set()
n = 200
for i in range(n):
    lon = 114.01 + (151.99 - 114.01) * i / (n - 1)
    for lat in (-12.05, -12.5, -13.0):
        px, py = geom.point(lon, lat, "epsg:4326").to_crs(gs.crs).coords[0]
        need.add(gs.pt2idx(px, py).xy)
missing = sorted(need - got)
print(f"tiles containing sampled query points but not returned: {len(missing)}: {missing[:8]}...")

assert idx in got, f"tile {idx} overlaps the query (contains a query point) but was not returned"
