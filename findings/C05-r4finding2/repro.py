"""
C05: save_cog_with_dask writes garbage pixels for big-endian (non-native byte order)
source arrays, e.g. '>u2' / '>i4' / '>f4' as produced by NetCDF-3 (scipy backend),
FITS, GRIB, big-endian zarr, np.fromfile(..., '>i2').

Run:  PYTHONPATH=/tmp/seed/C05 /venv/bin/python repro.py
"""
import os
import sys
import tempfile

import dask.array as da
import numpy as np
import rasterio
import tifffile
from affine import Affine

from odc.geo.cog import save_cog_with_dask
from odc.geo.geobox import GeoBox
from odc.geo.xr import wrap_xr

rng = np.random.default_rng(0)
tmp = tempfile.mkdtemp()
H, W = 70, 90
gbox = GeoBox((H, W), Affine(10, 0, 500000, 0, -10, 6000000), "EPSG:32633")


def roundtrip(label, pix, **kw):
    xx = wrap_xr(da.from_array(pix, chunks=(32, 32)), gbox)
    dst = os.path.join(tmp, label + ".tif")
    save_cog_with_dask(xx, dst, blocksize=[32, 16], **kw).compute(scheduler="sync")
    with rasterio.open(dst) as src:
        rio = src.read(1)[:H, :W]
    tf = tifffile.imread(dst)[:H, :W]
    # compare by value, byte order of the in-memory arrays does not matter for ==
    n_rio = int((rio != pix).sum())
    n_tf = int((tf != pix).sum())
    return n_rio, n_tf


base_u2 = rng.integers(0, 60000, size=(H, W)).astype("uint16")
base_i4 = rng.integers(-(2**30), 2**30, size=(H, W)).astype("int32")
base_f4 = rng.normal(size=(H, W)).astype("float32")

cases = [
    # (label, array, kwargs)
    ("native <u2 (control)", base_u2, {}),
    ("big-endian >u2, default options", base_u2.astype(">u2"), {}),
    ("big-endian >u2, predictor=False", base_u2.astype(">u2"), {"predictor": False}),
    ("big-endian >i4, zstd", base_i4.astype(">i4"), {"compression": "zstd"}),
    ("big-endian >f4, predictor=False", base_f4.astype(">f4"), {"predictor": False}),
    ("big-endian >f4, lzw", base_f4.astype(">f4"), {"compression": "lzw"}),
]

print("expected: 0 differing pixels for every case (rasterio and tifffile both decode the original values)")
print("observed:")
nbad = 0
for i, (label, pix, kw) in enumerate(cases):
    assert np.array_equal(pix, pix.astype(pix.dtype.newbyteorder("=")))  # same values
    n_rio, n_tf = roundtrip(f"c{i}", pix, **kw)
    flag = "" if (n_rio, n_tf) == (0, 0) else "   <-- WRONG"
    nbad += bool(flag)
    print(
        f"   {label:36s} differing pixels: rasterio {n_rio:5d}/{pix.size}, tifffile {n_tf:5d}/{pix.size}{flag}"
    )

if nbad:
    print(f"FAIL: {nbad} case(s) decode to different pixels than were saved (no error/warning raised)")
    sys.exit(1)
print("PASS")
