"""
C12 / finding 3: GeoboxTiles.grid_intersect raises (GEOS TopologyException) instead of returning
the dependency graph when one of the rasters is the standard whole-world Web-Mercator grid
(EPSG:3857, +-20037508.34 m) - or, same root cause, a polar-stereographic raster that contains
the pole - and the other raster is in a different CRS.

The two rasters overlap almost completely, the property promises the full tile-to-tile graph.
"""
import sys
import traceback
import warnings

warnings.filterwarnings("ignore")

from odc.geo.geobox import GeoBox, GeoboxTiles

failures = []


def check(name, dst_tiles, src_tiles, some_dst, some_src):
    print(f"{name}\n  expected: a dict that lists (at least) src tile {some_src} for dst tile {some_dst}")
    try:
        deps = dst_tiles.grid_intersect(src_tiles)
    except Exception as e:  # pylint: disable=broad-except
        print(f"  observed: {type(e).__name__}: {e}")
        traceback.print_exc(limit=3, file=sys.stdout)
        failures.append(name)
        return
    ok = some_src in deps.get(some_dst, [])
    print(f"  observed: dict with {len(deps)} keys; edge present: {ok}")
    if not ok:
        failures.append(name)


M = 20037508.342789244
wm = GeoboxTiles(GeoBox.from_bbox((-M, -M, M, M), "EPSG:3857", resolution=2 * M / 512), (128, 128))
ll = GeoboxTiles(GeoBox.from_bbox((-180, -90, 180, 90), "EPSG:4326", resolution=1), (45, 90))
utm = GeoboxTiles(GeoBox.from_bbox((400_000, 5_000_000, 600_000, 5_200_000), "EPSG:32633", resolution=1000), (100, 100))
# lon 0..90, lat 0..66 is web-mercator tile (1, 2) and lat/lon tile (1, 2) [rows: 90..45, 45..0]
check("world EPSG:3857 (dst)  <-  world EPSG:4326 (src)", wm, ll, (1, 2), (1, 2))
check("world EPSG:4326 (dst)  <-  world EPSG:3857 (src)", ll, wm, (1, 2), (1, 2))
# UTM33 block around 15E, 46N lies in web-mercator tile (1, 2)
check("world EPSG:3857 (dst)  <-  200km UTM33 block (src)", wm, utm, (1, 2), (0, 0))

# same root cause: raster containing the pole
sp = GeoboxTiles(GeoBox.from_bbox((-2e6, -2e6, 2e6, 2e6), "EPSG:3031", resolution=10_000), (100, 100))
ant = GeoboxTiles(GeoBox.from_bbox((-180, -90, 180, -60), "EPSG:4326", resolution=0.25), (30, 180))
# dst tile (3,0): lat -82.5..-90, lon -180..-135 ; contains lon=-150 lat=-85 -> x~-272km, y~-472km
# -> src pixel col ~172, row ~247 -> src tile (2, 1)
check("Antarctic EPSG:4326 (dst)  <-  EPSG:3031 raster around the south pole (src)", ant, sp, (3, 0), (2, 1))

assert not failures, f"C12 violated: grid_intersect fails for overlapping rasters in different CRS: {failures}"
print("OK")
