"""
C12: same-CRS dependency graph (linear path) drops edges on very wide rasters because
the pixel-to-pixel scale is snapped to 1 (or n, 1/n) whenever it is within 1e-6
*relative* of it, no matter how many pixels the raster has.

_check_linear():   A = snap_affine((~src.transform) * dst.transform)      # stol = 1e-6
_grid_intersect_linear() then maps destination tile boxes with the *snapped* A.
A scale of 1.0000008 treated as 1.0 is harmless on a 10k raster (0.008 px) but is
1 px after 1.3 million columns and 18 px after 20 million columns, so towards the far
end every destination tile really overlaps the next source tile by whole pixels and
that source tile is not listed.
"""
import warnings

warnings.filterwarnings("ignore")

from affine import Affine

from odc.geo.geobox import GeoBox, GeoboxTiles


def run(label, src, dst, tile, min_overlap_px):
    sgbt = GeoboxTiles(src, (tile, tile))
    dgbt = GeoboxTiles(dst, (tile, tile))
    print(f"== {label}")
    print("   dst->src pixel transform used by the library:", tuple(dgbt._check_linear(sgbt))[:6])
    print("   true dst->src pixel transform               :", tuple((~src.transform) * dst.transform)[:6])
    deps = dgbt.grid_intersect(sgbt)

    # independent oracle: world x of destination tile edges from dst.transform, converted to
    # source pixel columns with src.transform; overlap with each source tile column range
    W = src.shape.x
    n_src_tiles = sgbt.shape.x
    n_missing = 0
    worst = (0.0, None, None, None)
    for ix in range(dgbt.shape.x):
        rx = dgbt.roi[0, ix][1]
        wx0, _ = dst.transform * (rx.start, 0)
        wx1, _ = dst.transform * (rx.stop, 0)
        sx0, _ = (~src.transform) * (wx0, 0)
        sx1, _ = (~src.transform) * (wx1, 0)
        listed = {t[1] for t in deps.get((0, ix), [])}
        t0 = max(0, int(sx0 // tile) - 1)
        t1 = min(n_src_tiles - 1, int(sx1 // tile) + 1)
        for t in range(t0, t1 + 1):
            a, b = t * tile, min((t + 1) * tile, W)
            ov = min(b, sx1) - max(a, sx0)
            if ov >= min_overlap_px and t not in listed:
                n_missing += 1
                if ov > worst[0]:
                    worst = (ov, ix, t, sorted(listed))
    print(f"   expected: every source tile overlapping a destination tile by >= {min_overlap_px} px is listed")
    print(f"   observed: {n_missing} of {dgbt.shape.x} destination tiles lack such a source tile; worst: dst tile (0,{worst[1]}) "
          f"overlaps src tile (0,{worst[2]}) by {worst[0]:.2f} source pixels (x {tile} rows) but lists only columns {worst[3]}")
    return n_missing


bad = 0

# (a) global 1 arc-second strip: resolution exact (1/3600) vs as rounded in metadata (0.000277778)
W, H = 360 * 3600, 3600
src = GeoBox((H, W), Affine(1 / 3600, 0, -180, 0, -1 / 3600, 10), "EPSG:4326")
dst = GeoBox((H, W), Affine(0.000277778, 0, -180, 0, -0.000277778, 10), "EPSG:4326")
bad += run("1 arc-second global strip, 1/3600 vs 0.000277778 deg", src, dst, 3600, 0.5)

# (b) 2 m web-mercator strip around the globe, 2 m vs 2.0000018 m pixels
W, H = 20_000_000, 4096
src = GeoBox((H, W), Affine(2.0, 0, -20_000_000, 0, -2.0, 4096), "EPSG:3857")
dst = GeoBox((H, W), Affine(2.0000018, 0, -20_000_000, 0, -2.0000018, 4096), "EPSG:3857")
bad += run("2 m global web-mercator strip, 2 m vs 2.0000018 m", src, dst, 4096, 2.0)

assert bad == 0, f"{bad} destination tiles have a dependency edge missing although the overlap is whole pixels wide"
print("OK")
