"""
C19: "pickling then unpickling yields an equal object" and "a value and its copy or
unpickled clone share [their dask token]" -- for Geometry.

Geometry(shapely_geom, crs) keeps the shapely object as is, Z (and M) ordinates
included, and __eq__ compares the shapely objects exactly.  __getstate__ however
serialises through GeoJSON (self.json) and __setstate__ re-reads it with
_geojson_to_shapely, which keeps only the first two ordinates of every coordinate.
So any Geometry wrapping a 3D shapely geometry (KML / GeoPackage / PostGIS sources
routinely carry Z) is NOT equal to its pickled clone, its copy.copy, its
copy.deepcopy, and all of those get a different dask token.
(Geometry.clone() -- the non-pickle copy -- does keep Z, so the library itself
disagrees about what a copy is.)
"""
import copy
import pickle
import warnings

warnings.filterwarnings("ignore")

import shapely.geometry as sg  # noqa: E402
from dask.base import tokenize  # noqa: E402

from odc.geo.geom import Geometry  # noqa: E402

cases = {
    "Point Z": sg.Point(1, 2, 3),
    "LineString Z": sg.LineString([(0, 0, 10), (1, 1, 20)]),
    "Polygon Z": sg.Polygon([(0, 0, 5), (1, 0, 5), (1, 1, 5), (0, 0, 5)]),
    "MultiPoint Z": sg.MultiPoint([(0, 0, 1), (1, 1, 2)]),
}

failures = []
for crs in ("EPSG:4326", None):
    for name, g in cases.items():
        v = Geometry(g, crs)
        assert v == v and v == v.clone(), "reflexive / clone() equal"
        for how, mk in [
            ("pickle round trip", lambda x: pickle.loads(pickle.dumps(x))),
            ("copy.copy", copy.copy),
            ("copy.deepcopy", copy.deepcopy),
        ]:
            c = mk(v)
            if not (c == v and v == c):
                failures.append(f"{name} crs={crs}: {how} is not equal: {v.geom.wkt}  ->  {c.geom.wkt}")
            if tokenize(c) != tokenize(v):
                failures.append(f"{name} crs={crs}: {how} has a different dask token")

print("expected: every Geometry equals its pickled clone / copy and shares its dask token")
print(f"observed: {len(failures)} violations")
for f in failures[:8]:
    print("   ", f)
assert not failures, f"{len(failures)} Geometry values differ from their pickled clone / copy"
print("OK")
