"""
C20 / snap_grid: with numpy float32 scalars as x0/x1 the one-axis snapping is carried out in float32
(installed NumPy >= 2 keeps ``np.float32 <op> python-float`` in float32, NEP 50), so the returned grid
does not cover [x0, x1] up to ``tol`` and differs from what the very same numbers give as python floats.

BoundingBox keeps whatever scalar type it is given, so GeoBox.from_bbox((lon.min(), ...)) with
float32 lon/lat arrays (the usual dtype of swath geolocation arrays) goes through this path.
"""
import sys
from fractions import Fraction as F

import numpy as np

from odc.geo.geobox import GeoBox
from odc.geo.math import snap_grid

print("numpy", np.__version__)


def uncovered_px(x0, x1, res, tx, nx):
    """exact (rational) amount of [x0,x1] left outside of the grid, in pixels"""
    x0, x1, r, tx = F(float(x0)), F(float(x1)), F(abs(res)), F(float(tx))
    lo, hi = (tx, tx + nx * r) if res > 0 else (tx - nx * r, tx)
    return float(max(lo - x0, x1 - hi, 0) / r)


cases = [
    # x0, x1, res, off_pix, tol
    (np.float32(159.46704), np.float32(162.22725), 1e-05, 0, 0.01),  # lon, ~1 m pixels
    (np.float32(112.92), np.float32(115.37), 0.0001, 0, 0.01),  # lon, ~10 m pixels
    (np.float32(10000007.0), np.float32(10000042.0), -10, 0.75, 0.001),  # northing, 10 m pixels
    (np.float32(0.0), np.float32(436.2), 0.3, None, 1e-6),  # floating anchor
]

bad = []
for x0, x1, res, off, tol in cases:
    got = snap_grid(x0, x1, res, off, tol)
    want = snap_grid(float(x0), float(x1), res, off, tol)  # identical numbers, python floats
    u_got = uncovered_px(x0, x1, res, *got)
    u_want = uncovered_px(x0, x1, res, *want)
    print(f"snap_grid({x0!r}, {x1!r}, {res}, {off}, tol={tol})")
    print(f"    as python floats : {want}   uncovered {u_want:.3g} px")
    print(f"    as np.float32    : {got}   uncovered {u_got:.3g} px")
    if u_got > tol * 1.001 or got[1] != want[1]:
        bad.append((x0, x1, res, off, tol, got, want, u_got))

# same thing through the public GeoBox constructor
lon = np.asarray([159.46704, 160.1, 162.22725], dtype="float32")
lat = np.asarray([-31.27, -30.4, -29.93], dtype="float32")
bbox32 = (lon.min(), lat.min(), lon.max(), lat.max())
bbox64 = tuple(float(v) for v in bbox32)
g32 = GeoBox.from_bbox(bbox32, "epsg:4326", resolution=1e-5)
g64 = GeoBox.from_bbox(bbox64, "epsg:4326", resolution=1e-5)
print("GeoBox.from_bbox float32 bbox:", g32.shape, g32.boundingbox.left)
print("GeoBox.from_bbox float   bbox:", g64.shape, g64.boundingbox.left)
left_gap_px = (g32.boundingbox.left - bbox64[0]) / 1e-5
print(f"    west edge of the float32 result is {left_gap_px:.3f} px inside the requested bbox (tol 0.01)")
if left_gap_px > 0.01 or g32.shape != g64.shape:
    bad.append(("from_bbox", g32, g64))

print()
print("expected: grid covers [x0, x1] up to tol pixels and does not depend on the scalar type of equal numbers")
if bad:
    print(f"observed: {len(bad)} case(s) where the float32-typed call leaves more than tol uncovered / "
          "returns a different pixel count")
    sys.exit(1)
print("observed: ok")
