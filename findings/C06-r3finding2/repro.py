"""
C06 finding 2: the dask key of the finalise task does not depend on the chunk stream.

mpu_write() names its final task
    f"{dask_name_prefix}-{tokenize(write, mk_header, mk_footer, user_kw, spill_sz)}"
(explicit dask_key_name, pure=True).  Neither the chunk bags nor writes_per_chunk enter
the token.  Two independent mpu_write() graphs whose writer/header/footer/spill tokens
coincide (two fresh in-memory sinks of the same class, or no writer at all) therefore get
the SAME key.  When both are computed in one dask.compute() call - an ordinary schedule -
dask keeps one of the two tasks: one stream is never assembled/written and both results
are the same object.

Property C06: the parts handed to the writer equal header + all chunks + footer,
"the write never ... loses data" under any schedule; observe_at: "return value of
mpu_write(...).compute()".
"""
import sys

import dask
import dask.bag as bag

from odc.geo.cog._mpu import mpu_write


class MemWriter:
    """plain in-memory sink, the same shape as tests/test_mpu.py::FakeWriter"""

    def __init__(self):
        self.calls = []
        self.final = None

    def __call__(self, part, data):
        self.calls.append((part, bytes(data)))
        return {"PartNumber": part}

    def finalise(self, parts):
        self.final = list(parts)
        return self

    min_write_sz = 10
    max_write_sz = 1 << 30
    min_part = 1
    max_part = 10_000

    @property
    def data(self):
        return b"".join(d for _, d in sorted(self.calls, key=lambda x: x[0]))


A = [(b"A" * 30, "a0"), (b"B" * 30, "a1"), (b"C" * 30, "a2")]
B = [(b"x" * 25, "b0"), (b"y" * 25, "b1"), (b"z" * 25, "b2"), (b"w" * 25, "b3")]
expA = b"".join(d for d, _ in A)
expB = b"".join(d for d, _ in B)
problems = []

# ---- with writers -------------------------------------------------------------
wA, wB = MemWriter(), MemWriter()
dA = mpu_write(bag.from_sequence(A, npartitions=3), wA, spill_sz=10)
dB = mpu_write(bag.from_sequence(B, npartitions=4), wB, spill_sz=10)
print("keys:", dA.key, dB.key)
rA, rB = dask.compute(dA, dB, scheduler="synchronous")
print(f"writer A: expected {expA!r}\n          observed {wA.data!r}")
print(f"writer B: expected {expB!r}\n          observed {wB.data!r}")
if wA.data != expA:
    problems.append("stream A was not written to writer A")
if wB.data != expB:
    problems.append("stream B was not written to writer B")
if wA.final is None or wB.final is None:
    problems.append(f"finalise not called on both writers: A={wA.final is not None} B={wB.final is not None}")

# ---- without writer (returns the assembled MPUChunk) --------------------------
cA = mpu_write(bag.from_sequence(A, npartitions=3))
cB = mpu_write(bag.from_sequence(B, npartitions=4))
rA, rB = dask.compute(cA, cB, scheduler="synchronous")
print(f"no-writer A: expected {expA!r}\n             observed {bytes(rA.data)!r}")
print(f"no-writer B: expected {expB!r}\n             observed {bytes(rB.data)!r}")
if bytes(rA.data) != expA or bytes(rB.data) != expB:
    problems.append("no-writer mode: the two results are the same chunk, one stream is lost")

if problems:
    print("\nVIOLATIONS:")
    for p in problems:
        print("  -", p)
    sys.exit(1)
print("OK")
