"""
C04: "tile-index lookup from a pixel is the inverse of region lookup from a tile index".

Pixel coordinates / tile indexes very often arrive as numpy integers (np.argwhere, np.nonzero,
np.ndarray.tolist() not applied, np.unravel_index, arithmetic on array elements ...).
 * Tiles.locate() happily accepts numpy integer pixel coordinates and returns numpy integer
   tile index, but feeding that index back into Tiles.__getitem__ crashes with
   AttributeError: 'numpy.int64' object has no attribute 'start'
 * the same crash happens for VariableSizedTiles[...], GeoboxTiles[...], for the re-based
   indexes returned by GeoboxTiles.clip() when the selection was a numpy array, and in
   BlockAssembler.extract() when the block mapping is keyed by numpy integers,
while tile_shape()/chunk_shape()/locate() work with the very same index objects.
"""
import sys
import traceback

import numpy as np
from affine import Affine

from odc.geo._blocks import BlockAssembler
from odc.geo.geobox import GeoBox, GeoboxTiles
from odc.geo.roi import Tiles, VariableSizedTiles

failures = []


def attempt(label, f, expect):
    try:
        got = f()
    except Exception as e:  # pylint: disable=broad-except
        traceback.print_exc(limit=1)
        got = f"CRASH {type(e).__name__}: {e}"
        failures.append(label)
    else:
        if got != expect:
            failures.append(label)
    print(f"{label}\n    expected: {expect}\n    observed: {got}")


tt = Tiles((10, 20), (3, 7))
mask = np.zeros((10, 20), dtype=bool)
mask[4, 15] = True
pix = tuple(np.argwhere(mask)[0])  # (np.int64(4), np.int64(15))

print("pixel:", pix)
idx = tt.locate(pix)
print("Tiles.locate(pix) ->", idx, " tile_shape(idx) ->", tt.tile_shape(idx))
attempt("Tiles[locate(pix)]  (round trip pixel -> tile index -> region)", lambda: tt[idx], tt[1, 2])

vt = VariableSizedTiles(tt.chunks)
idx_np = (np.int64(1), np.int64(2))
print("VariableSizedTiles.tile_shape(np idx) ->", vt.tile_shape(idx_np))
attempt("VariableSizedTiles[np.int64, np.int64]", lambda: vt[idx_np], vt[1, 2])

gbox = GeoBox((10, 20), Affine.identity(), "epsg:3857")
gbt = GeoboxTiles(gbox, (3, 7))
sel = np.argwhere(np.eye(3, dtype=bool))  # tiles (0,0) (1,1) (2,2) as an Nx2 array
clipped, new_idx = gbt.clip(sel)  # accepted, clip_tiles uses np.asarray(selection)
print("clip(ndarray) ->", clipped, new_idx)
attempt(
    "clipped[new_idx[1]] with the re-based indexes returned by GeoboxTiles.clip(ndarray)",
    lambda: clipped[new_idx[1]],
    gbt[1, 1],
)

blocks = {(np.int64(r), np.int64(c)): np.full(tt.tile_shape((r, c)).yx, 7, "uint8") for r, c in [(0, 0), (1, 2)]}
ba = BlockAssembler(blocks, tt.chunks)  # constructor validates the blocks fine
attempt(
    "BlockAssembler keyed by numpy ints: extract()[3:6, 14:20].tolist()",
    lambda: ba.extract()[3:6, 14:20].tolist(),
    np.full((3, 6), 7, "uint8").tolist(),
)

assert not failures, f"{len(failures)} lookups with numpy integer tile indexes failed: {failures}"
sys.exit(0)
