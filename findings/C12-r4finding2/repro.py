"""
C12: a point / line / degenerate box that lies exactly on an interior tile boundary
matches NO tile at all, although it lies inside the raster and intersects the
footprints of the tiles on both sides of that boundary.

range_from_bbox() turns a span [a1, a2] into pixel indexes floor(a1) .. ceil(a2)-1.
For a zero-width span on an integer pixel coordinate p this gives p .. p-1; when p
is a tile boundary the two ends fall into different tiles (t, t-1) and
range(t, t-1+1) is empty, so tiles() yields nothing.  The same point one pixel
inside a tile works (both ends fall in the same tile), so this only hits grid
aligned coordinates - which is exactly what round UTM coordinates are.
"""
import itertools
import warnings

warnings.filterwarnings("ignore")

from affine import Affine

from odc.geo import geom
from odc.geo.geobox import GeoBox, GeoboxTiles
from odc.geo.geom import BoundingBox

CRS = "EPSG:32633"
# 100x100 px, 10 m, origin on round coordinates; 4x4 tiles of 25 px (250 m)
gbox = GeoBox((100, 100), Affine(10, 0, 500000, 0, -10, 6001000), CRS)
failed = []


def brute_force(gbt, q):
    """every tile whose footprint intersects the query (the statement, literally)"""
    return sorted(idx for idx in gbt._all_tiles() if gbt[idx].extent.intersects(q))


def check(label, gbt, q):
    if isinstance(q, BoundingBox):
        expected = brute_force(gbt, q.polygon)
    else:
        expected = brute_force(gbt, q)
    observed = sorted(gbt.tiles(q))
    ok = len(observed) > 0 and set(observed) <= set(expected)
    print(f"{label}\n    tiles whose footprint intersects the query: {expected}\n    GeoboxTiles.tiles() returned:               {observed}   {'ok' if ok else '<-- NOTHING RETURNED'}")
    if not ok:
        failed.append(label)


for name, gbt in [
    ("regular 25x25 tiles", GeoboxTiles(gbox, (25, 25))),
    ("variable tiles (dask style chunks)", GeoboxTiles(gbox, ((25, 25, 50), (10, 40, 50)))),
]:
    print("=====", name)
    # control: a point strictly inside a tile
    check("control: point inside a tile (500120, 6000880)", gbt, geom.point(500120, 6000880, CRS))
    # point on the corner shared by 4 tiles / on an edge shared by 2 tiles
    check("point on a shared tile corner (500500, 6000750)", gbt, geom.point(500500, 6000750, CRS))
    check("point on a shared tile edge   (500500, 6000880)", gbt, geom.point(500500, 6000880, CRS))
    # transect along a round northing that happens to be a tile boundary: crosses the whole raster
    check("line along y=6000750 across the whole raster", gbt, geom.line([(500000, 6000750), (501000, 6000750)], CRS))
    # same things given as bounding boxes
    check("degenerate BoundingBox (point) with CRS", gbt, BoundingBox(500500, 6000750, 500500, 6000750, CRS))

# pixel-space bounding box (crs=None): zero-size box on a tile corner
gbt = GeoboxTiles(gbox, (25, 25))
obs = list(gbt.tiles(BoundingBox(50, 25, 50, 25)))
print("===== pixel-space BoundingBox(50, 25, 50, 25): returned", obs)
if not obs:
    failed.append("pixel bbox")

print()
print("expected: every query above lies inside the raster, so at least one tile (all touching ones) is returned")
print("observed: empty result for:", failed)
assert not failed, f"{len(failed)} in-raster queries matched no tile at all"
print("OK")
