"""
C02 / GeoBox.pad, GCPGeoBox.pad: "Expand GeoBox by fixed number of pixels on each side".
Pixel (padx, pady) of the padded geobox must be pixel (0, 0) of the original.
With an unsigned numpy integer pad size (np.uint8/16/32/64, e.g. a value taken out of an
unsigned array) the shape grows as expected but the grid is moved the WRONG way by a huge
amount: pad(np.uint8(3)) shifts the origin by +253 pixels instead of -3.

run:  PYTHONPATH=/tmp/seed/C02 /venv/bin/python repro.py
"""
import sys
import warnings

warnings.filterwarnings("ignore")

import numpy as np
from affine import Affine

from odc.geo.gcp import GCPGeoBox, GCPMapping
from odc.geo.geobox import GeoBox

gbox = GeoBox((100, 200), Affine(10.0, 0.0, 500_000.0, 0.0, -10.0, 6_000_000.0), "epsg:32633")
pix = np.array([(0, 0), (200, 0), (200, 100), (0, 100)], dtype="float64")
wld = np.array([gbox.pix2wld(x, y) for x, y in pix])
gcp_gbox = GCPGeoBox((100, 200), GCPMapping(pix, wld, "epsg:32633"))

bad = []
for name, g in (("GeoBox", gbox), ("GCPGeoBox", gcp_gbox)):
    ref = g.pad(3, 2)  # python ints: the reference behaviour
    assert ref.shape == (104, 206)
    assert np.allclose(ref.pix2wld(3, 2), g.pix2wld(0, 0))
    for padx, pady in [
        (np.int64(3), np.int64(2)),
        (np.uint8(3), np.uint8(2)),
        (np.uint16(3), None),
        (np.uint32(3), np.uint32(0)),
        (np.uint64(3), np.uint64(2)),
        (3, np.uint8(2)),
    ]:
        e_pady = padx if pady is None else pady
        got = g.pad(padx, pady)
        exp_shape = (100 + 2 * int(e_pady), 200 + 2 * int(padx))
        # contract: pixel (padx, pady) of the padded geobox is pixel (0, 0) of the original
        wx, wy = got.pix2wld(int(padx), int(e_pady))
        ex, ey = g.pix2wld(0, 0)
        off_px = max(abs(wx - ex), abs(wy - ey)) / 10.0
        ok = tuple(got.shape) == exp_shape and off_px < 1e-6
        print(
            f"{name}.pad({padx!r}, {pady!r}): shape {tuple(got.shape)} (expected {exp_shape}); "
            f"pixel ({int(padx)},{int(e_pady)}) is at ({float(wx):.6g}, {float(wy):.6g}), expected ({float(ex):.6g}, {float(ey):.6g})"
            f" -> off by {off_px:.6g} px {'OK' if ok else 'WRONG'}"
        )
        if not ok:
            bad.append((name, padx, pady, off_px))

print()
print("expected: pad(n) moves the origin by -n pixels whatever integer type n has (python int, numpy signed or unsigned)")
if bad:
    print(f"observed: {len(bad)} calls with unsigned numpy pad sizes return a geobox in the wrong place, e.g. {bad[0]}")
    sys.exit(1)
print("OK")
