"""
C10: paste shortcut vs nearest-neighbour warp for 64-bit integer pixels.

The planner says the source can be pasted (same grid, whole pixel shift, read_shrink 1).
Pasting copies the int64 / uint64 pixels bit-exactly.  The nearest-neighbour warp of the
very same source onto the very same destination grid (rio_reproject, the oracle named in
the property) returns DIFFERENT pixel values: every value above 2**53 is rounded to a
multiple of 2**k, and values close to the top of the range wrap around
(int64 max -> int64 min, uint64 max -> 0).  No nodata is involved at all.
"""
import warnings

import numpy as np
from affine import Affine

from odc.geo.geobox import GeoBox
from odc.geo.overlap import compute_reproject_roi
from odc.geo.warp import rio_reproject

warnings.filterwarnings("ignore")

src = GeoBox((3, 4), Affine(10, 0, 500000, 0, -10, 6000000), "epsg:32633")
dst = GeoBox((5, 6), Affine(10, 0, 499990, 0, -10, 6000010), "epsg:32633")  # 1px shift

info = compute_reproject_roi(src, dst)
print("paste_ok:", info.paste_ok, "read_shrink:", info.read_shrink)
print("roi_src:", info.roi_src, "roi_dst:", info.roi_dst)
assert info.paste_ok and info.read_shrink == 1

failed = []
for dtype in ("int64", "uint64"):
    ii = np.iinfo(dtype)
    # e.g. acquisition time per pixel as nanoseconds since epoch (~1.7e18 > 2**53)
    t0 = 1_727_308_800_123_456_789
    src_img = (t0 + np.arange(12, dtype=dtype).reshape(3, 4) * 1_000_000_007).astype(dtype)
    src_img[0, 0] = ii.max
    src_img[0, 1] = 2**53 + 1

    fill = 0
    pasted = np.full(dst.shape, fill, dtype=dtype)
    pasted[info.roi_dst] = src_img[info.roi_src]

    warped = np.full(dst.shape, fill, dtype=dtype)
    rio_reproject(src_img, warped, src, dst, "nearest", dst_nodata=fill)

    same = np.array_equal(pasted, warped)
    print(f"\n[{dtype}] expected warp == paste (bit exact copy of the source pixels)")
    print(" paste :\n", pasted[info.roi_dst])
    print(" warp  :\n", warped[info.roi_dst])
    print(" diff (warp - paste, as python ints):")
    print(
        np.array(
            [int(w) - int(p) for w, p in zip(warped[info.roi_dst].ravel(), pasted[info.roi_dst].ravel())],
            dtype=object,
        ).reshape(3, 4)
    )
    if not same:
        failed.append(dtype)

assert not failed, f"nearest warp differs from paste for pixel types: {failed}"
print("OK")
