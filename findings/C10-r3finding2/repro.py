"""
C10 finding 2: bool rasters with nodata=True -- warp leaves "the rest" at False, not at nodata

For bool rasters _rio_reproject stretches the pixels to uint8 {0,255} before calling GDAL and
thresholds the result with `> 127` afterwards, but src_nodata / dst_nodata are passed through
unchanged.  With dst_nodata=True (==1) GDAL fills the uncovered part of the working uint8
buffer with 1, which the `> 127` threshold then turns into False.  So for pixel type bool the
nearest-neighbour warp does NOT leave the uncovered area at nodata, and the paste shortcut
(which does) produces a different image.  Typical use: reprojecting a validity / cloud mask
where "outside the source footprint" must read as True.
"""
import numpy as np
from affine import Affine

from odc.geo.geobox import GeoBox
from odc.geo.overlap import compute_reproject_roi
from odc.geo.warp import rio_reproject

T = Affine(10, 0, 1000, 0, -10, 5000)
src = GeoBox((4, 5), T, "epsg:3857")
dst = GeoBox((6, 8), T * Affine.translation(-2, -1), "epsg:3857")  # src sits inside dst

rr = compute_reproject_roi(src, dst)
assert rr.paste_ok and rr.read_shrink == 1
print("roi_src", rr.roi_src, "roi_dst", rr.roi_dst)

rng = np.random.default_rng(0)
src_img = rng.integers(0, 2, src.shape).astype(bool)

n_bad = 0
for nodata in (False, True):
    expect = np.full(dst.shape, nodata, dtype=bool)
    expect[rr.roi_dst] = src_img[rr.roi_src]

    got = np.full(dst.shape, nodata, dtype=bool)
    rio_reproject(src_img, got, src, dst, "nearest", dst_nodata=nodata)

    inside = np.zeros(dst.shape, bool)
    inside[rr.roi_dst] = True
    print(f"\ndst_nodata={nodata}")
    print("expected (paste, rest = nodata):\n", expect.astype(int))
    print("observed (rio_reproject nearest):\n", got.astype(int))
    print("  pixels inside roi_dst equal :", bool((expect == got)[inside].all()))
    print("  pixels outside roi_dst equal:", bool((expect == got)[~inside].all()),
          "-> outside values observed:", np.unique(got[~inside]))
    n_bad += int((expect != got).sum())

assert n_bad == 0, f"bool paste vs nearest warp differ in {n_bad} pixels (uncovered area is not left at nodata=True)"
