"""
C18 / cluster-coordinated use: the first write through a DelayedS3Writer crashes
with the *installed* distributed (2026.8.0), because DelayedS3Writer._ensure_init
builds the distributed lock as ``DLock(name, client)``.  In this distributed
version ``Lock.__init__(self, name=None, scheduler_rpc=None, loop=None)`` has no
``client`` parameter any more, so the Client object lands in ``scheduler_rpc`` and
``with lock:`` fails with
    AttributeError: 'Client' object has no attribute 'semaphore_register'

Expected: 3 concurrent first writes on a (in-process) dask cluster all succeed,
          exactly one create_multipart_upload, all parts under that upload id.
Observed: every write fails, no upload is ever initiated.
"""
import itertools
import logging
import sys
import threading

import distributed
from distributed import Client

from odc.geo.cog._s3 import MultiPartUpload

logging.getLogger("distributed").setLevel(logging.CRITICAL)


class FakeS3:
    def __init__(self):
        self.calls = []
        self._n = itertools.count(1)
        self._lock = threading.Lock()

    def create_multipart_upload(self, **kw):
        with self._lock:
            uid = f"upload-{next(self._n)}"
            self.calls.append(("create", uid))
        return {"UploadId": uid}

    def upload_part(self, **kw):
        with self._lock:
            self.calls.append(("part", kw["UploadId"], kw["PartNumber"]))
        return {"ETag": f"etag-{kw['PartNumber']}"}

    def complete_multipart_upload(self, **kw):
        with self._lock:
            self.calls.append(("complete", kw["UploadId"]))
        return {"ETag": "final"}


FAKE = FakeS3()
# workers are threads of this process (processes=False) so they all see FAKE
MultiPartUpload.s3_client = lambda self: FAKE


def main() -> int:
    print("distributed version:", distributed.__version__)
    client = Client(
        processes=False, n_workers=1, threads_per_worker=3, dashboard_address=None
    )
    try:
        mpu = MultiPartUpload("bucket", "key.tif")
        write = mpu.writer({"ContentType": "image/tiff"}, client=client)
        futs = [client.submit(write, i, b"x" * 16, pure=False) for i in (1, 2, 3)]
        errors = []
        parts = []
        for f in futs:
            try:
                parts.append(f.result(timeout=60))
            except Exception as e:  # pylint: disable=broad-except
                errors.append(e)

        creates = [c for c in FAKE.calls if c[0] == "create"]
        part_ids = {c[1] for c in FAKE.calls if c[0] == "part"}
        print("expected: 3 successful writes, 1 create_multipart_upload, 1 upload id")
        print(
            f"observed: {len(parts)} successful writes, {len(errors)} failed, "
            f"{len(creates)} create_multipart_upload, upload ids used: {sorted(part_ids)}"
        )
        for e in errors:
            print("   write failed with:", repr(e))

        assert not errors, f"{len(errors)} of 3 cluster-coordinated writes failed: {errors[0]!r}"
        assert len(creates) == 1
        assert part_ids == {creates[0][1]}
        return 0
    finally:
        client.close()


if __name__ == "__main__":
    sys.exit(main())
