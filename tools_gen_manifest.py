#!/venv/bin/python
"""Regenerate MANIFEST.json from odcverif/manifest_data.py (keeps it valid at all times)."""
import json, sys
sys.path.insert(0, "/verif")
sys.dont_write_bytecode = True
from odcverif import manifest_data as md

checks = []
for pid, c in sorted(md.CLAIMS.items()):
    checks.append({
        "property_id": pid,
        "quick_cmd": f"./vcheck {pid} --tier quick",
        "thorough_cmd": f"./vcheck {pid} --tier thorough",
        "evidence_file": f"/verif/evidence/{pid}.json",
        "replay_cmd_template": "./vcheck --replay {path}",
        "engine": "odcverif",
        "level_claimed": {"category": "other", "text": c["text"], "design_ref": c.get("design_ref", "DESIGN.md section 4")},
        "level_note": c["note"],
        "technique": c["technique"],
    })
m = {
    "version": 1,
    "setup_cmd": "true",
    "hooks": {
        "guard": "ODC_GEO_VERIF",
        "enable": "no hooks: the analysis reads /repo's source, nothing in odc-geo is instrumented",
        "baseline_off_cmd": "cd /repo && /venv/bin/python -m pytest -ra -q -p no:cacheprovider --timeout=900 --continue-on-collection-errors",
        "source_commits": [],
        "add_only": True,
    },
    "engines": [{
        "name": "odcverif",
        "path": "/verif/odcverif",
        "serves_properties": sorted(md.CLAIMS),
        "kind_free_text": "repository-specific static analyser: python ast, structured CFG (must/may dataflow over the statement tree), def-use/origin tracing, resolved call graph; runs under /venv/bin/python, nothing from odc-geo is imported or executed",
    }],
    "checks": checks,
    "notes": md.NOTES,
    "not_applicable": [{"property_id": k, "reason": v} for k, v in sorted(md.NOT_APPLICABLE.items())],
}
json.dump(m, open("/verif/MANIFEST.json", "w"), indent=1)
print("checks:", len(checks), "not_applicable:", len(m["not_applicable"]))
