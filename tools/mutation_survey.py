#!/venv/bin/python
"""Mutation survey of the *checker* (not a registered check; bookkeeping for DESIGN section 6).

For a property P: every statement of every function in P's anchored modules is broken once per generic AST
operator of odcverif/mutate.py (in memory; /repo is never written), the variant must compile, and P's rules are
run on the mutated program.  A mutant is

  reported   - P's check has a BAD instance that the unmutated tree does not have
  noticed    - the analysis refuses a verdict (exception / undetermined / instance floor): exit 2
  silent     - neither

With --tests the silent mutants are additionally written to a private copy of the package and the repository's
test-suite is run on them (first the test files that mention the module, then everything): a silent mutant that
also *survives the tests* is a candidate blind spot - a change that compiles, passes the suite and is not
reported.  Those are listed for reading (many are equivalent mutants or irrelevant to the property).

usage: mutation_survey.py C17 [C03 ...] [--funcs REGEX] [--max-per-stmt N] [--tests] [--jobs N] [--out file.json]
"""
from __future__ import annotations

import argparse
import ast
import json
import os
import re
import shutil
import subprocess
import sys
import tempfile
from concurrent.futures import ProcessPoolExecutor
from pathlib import Path

HERE = Path(__file__).resolve().parent.parent
sys.path.insert(0, str(HERE))
sys.dont_write_bytecode = True
os.environ.setdefault("ODCVERIF_EVIDENCE_DIR", tempfile.mkdtemp(prefix="msurvey_ev_"))

from odcverif import props  # noqa: E402
from odcverif.loader import Program  # noqa: E402
from odcverif.mutate import mutants_of  # noqa: E402
from odcverif.report import BAD, OK, UNDET, Run  # noqa: E402

ROOT = os.environ.get("ODCVERIF_REPO", "/repo")
PROPS = {json.loads(l)["id"]: json.loads(l) for l in open(HERE / "properties.jsonl")}


def modname_of(relfile: str) -> str:
    return relfile[len("odc/geo/"):-3].replace("/", ".")


def verdict(pid: str, prog: Program):
    run = Run(pid, "quick", 1)
    try:
        getattr(props, pid)(prog, run, "quick")
    except Exception as e:  # noqa
        return set(), [f"{type(e).__name__}: {e}"[:200]], {}
    uniq = {}
    order = {BAD: 3, UNDET: 2, OK: 1, "info": 0}
    for i in run.instances:
        if i.key not in uniq or order[i.status] > order[uniq[i.key].status]:
            uniq[i.key] = i
    bad = {k for k, i in uniq.items() if i.status == BAD}
    errs = [f"undetermined {k}" for k, i in uniq.items() if i.status == UNDET] + list(run.errors)
    for prefix, n in run.floors.items():
        have = sum(1 for k, i in uniq.items() if k.startswith(prefix) and i.status in (OK, BAD))
        if have < n:
            errs.append(f"floor {prefix}")
    return bad, errs, {k: uniq[k].why[:160] for k in bad}


_BASE = {}


def job(args):
    pid, modname, path, fq, stmt_line, stmt_col, idx, desc = args
    source = open(path).read()
    tree = ast.parse(source)
    stmt = None
    for n in ast.walk(tree):
        if isinstance(n, ast.stmt) and n.lineno == stmt_line and n.col_offset == stmt_col:
            stmt = n
            break
    if stmt is None:
        return None
    muts = mutants_of(stmt, False)
    if idx >= len(muts) or muts[idx][0] != desc:
        return None
    try:
        if not muts[idx][1](tree):
            return None
        ast.fix_missing_locations(tree)
        compile(tree, path, "exec")
    except Exception:
        return None
    new_src = ast.unparse(tree)
    if pid not in _BASE:
        _BASE[pid] = verdict(pid, Program(ROOT))[0]
    try:
        prog = Program(ROOT, {modname: tree})
        bad, errs, why = verdict(pid, prog)
    except Exception as e:  # noqa
        bad, errs, why = set(), [f"{type(e).__name__}: {e}"[:200]], {}
    new_bad = sorted(bad - _BASE[pid])
    status = "reported" if new_bad else ("noticed" if errs else "silent")
    return {"pid": pid, "module": modname, "func": fq, "line": stmt_line, "op": desc, "status": status, "by": new_bad[:3], "errs": errs[:2],
            "stmt": ast.unparse(stmt).splitlines()[0][:140], "_src": new_src if status == "silent" else None}


def enumerate_jobs(pid: str, funcs_re, max_per_stmt: int):
    prog = Program(ROOT)
    jobs = []
    for rel in PROPS[pid]["anchors"]["files"]:
        if not rel.startswith("odc/geo/"):
            continue
        modname = modname_of(rel)
        if modname not in prog.modules:
            continue
        mi = prog.modules[modname]
        tree = ast.parse(mi.source)
        path = str(Path(ROOT) / rel)
        # statements -> innermost function qualname
        def visit(body, qual):
            for st in body:
                if isinstance(st, (ast.FunctionDef, ast.AsyncFunctionDef)):
                    visit(st.body, f"{qual}.{st.name}" if qual else st.name)
                    continue
                if isinstance(st, ast.ClassDef):
                    visit(st.body, f"{qual}.{st.name}" if qual else st.name)
                    continue
                if not qual or "." not in qual and False:
                    pass
                if isinstance(st, ast.Expr) and isinstance(st.value, ast.Constant):
                    continue
                if qual and (funcs_re is None or funcs_re.search(qual)):
                    ms = mutants_of(st, False)
                    seen = set()
                    k = 0
                    for idx, (desc, _fn) in enumerate(ms):
                        if desc in seen:
                            continue
                        seen.add(desc)
                        jobs.append((pid, modname, path, qual, st.lineno, st.col_offset, idx, desc))
                        k += 1
                        if k >= max_per_stmt:
                            break
                for fld in ("body", "orelse", "finalbody"):
                    sub = getattr(st, fld, None)
                    if isinstance(sub, list) and sub and isinstance(sub[0], ast.stmt):
                        visit(sub, qual)
                for h in getattr(st, "handlers", []) or []:
                    visit(h.body, qual)
                for c in getattr(st, "cases", []) or []:
                    visit(c.body, qual)
        visit(tree.body, "")
    return jobs


def test_files_for(modname: str):
    leaf = modname.split(".")[-1].lstrip("_")
    tests = Path(ROOT) / "tests"
    out = []
    for p in sorted(tests.glob("test_*.py")):
        t = p.read_text()
        if re.search(rf"odc\.geo\.{re.escape(modname)}\b|from odc\.geo import .*\b{re.escape(leaf)}\b|\b{re.escape(leaf)}\b", t):
            out.append(str(p.relative_to(ROOT)))
    return out


def run_tests(args):
    rec, stable = args
    tmp = Path(tempfile.mkdtemp(prefix="msurvey_"))
    try:
        shutil.copytree(Path(ROOT) / "odc", tmp / "odc")
        shutil.copytree(Path(ROOT) / "tests", tmp / "tests")
        for f in ("pyproject.toml", "setup.cfg", "setup.py", "conftest.py"):
            if (Path(ROOT) / f).exists():
                shutil.copy(Path(ROOT) / f, tmp / f)
        (tmp / "odc" / "geo" / (rec["module"].replace(".", "/") + ".py")).write_text(rec["_src"])
        env = dict(os.environ, PYTHONPATH=str(tmp), PYTHONDONTWRITEBYTECODE="1")
        jx = tmp / "j.xml"
        targeted = " ".join(test_files_for(rec["module"])) or "tests"
        p = subprocess.run(f"/venv/bin/python -m pytest -q -x -p no:cacheprovider --timeout=300 --continue-on-collection-errors --junitxml={jx} {targeted}",
                           shell=True, cwd=tmp, env=env, capture_output=True, text=True, timeout=1500)
        import xml.etree.ElementTree as ET

        ok = {}
        try:
            for tc in ET.parse(jx).iter("testcase"):
                ok[f"{tc.get('classname')}::{tc.get('name')}"] = not any(ch.tag in ("failure", "error", "skipped") for ch in tc)
        except Exception as e:  # noqa
            return dict(rec, tests="junit-error")
        # -x stops at the first failure: a stable test that ran and failed kills the mutant; always-fail tests also stop -x,
        # so run without -x when the first failure is not a stable test
        failed_stable = [n for n in stable if n in ok and not ok[n]]
        if failed_stable:
            return dict(rec, tests="killed", killed_by=failed_stable[:2])
        p = subprocess.run(f"/venv/bin/python -m pytest -q -p no:cacheprovider --timeout=300 --continue-on-collection-errors --junitxml={jx} tests",
                           shell=True, cwd=tmp, env=env, capture_output=True, text=True, timeout=2400)
        ok = {}
        for tc in ET.parse(jx).iter("testcase"):
            ok[f"{tc.get('classname')}::{tc.get('name')}"] = not any(ch.tag in ("failure", "error", "skipped") for ch in tc)
        missing = [n for n in stable if not ok.get(n)]
        return dict(rec, tests="killed" if missing else "survived", killed_by=missing[:2])
    except subprocess.TimeoutExpired:
        return dict(rec, tests="killed", killed_by=["timeout"])
    finally:
        shutil.rmtree(tmp, ignore_errors=True)


def main():
    ap = argparse.ArgumentParser()
    ap.add_argument("pids", nargs="+")
    ap.add_argument("--funcs")
    ap.add_argument("--max-per-stmt", type=int, default=6)
    ap.add_argument("--tests", action="store_true")
    ap.add_argument("--jobs", type=int, default=12)
    ap.add_argument("--out", default="/tmp/msurvey.json")
    a = ap.parse_args()
    fre = re.compile(a.funcs) if a.funcs else None
    allrec = []
    for pid in a.pids:
        jobs = enumerate_jobs(pid, fre, a.max_per_stmt)
        print(f"[{pid}] {len(jobs)} mutants", flush=True)
        with ProcessPoolExecutor(a.jobs) as ex:
            recs = [r for r in ex.map(job, jobs, chunksize=8) if r]
        cnt = {}
        for r in recs:
            cnt[r["status"]] = cnt.get(r["status"], 0) + 1
        print(f"[{pid}] built {len(recs)}: {cnt}", flush=True)
        allrec.extend(recs)
    if a.tests:
        stable = json.load(open("/root/.vp/BASELINE.json"))["stable_pass"]
        silent = [r for r in allrec if r["status"] == "silent"]
        # the same mutated source can be silent for several properties: test once
        bysrc = {}
        for r in silent:
            bysrc.setdefault((r["module"], r["_src"]), []).append(r)
        print(f"testing {len(bysrc)} distinct silent mutants", flush=True)
        with ProcessPoolExecutor(a.jobs) as ex:
            for res in ex.map(run_tests, [(rs[0], stable) for rs in bysrc.values()]):
                for r in bysrc[(res["module"], res["_src"])]:
                    r["tests"] = res["tests"]
                    r["killed_by"] = res.get("killed_by")
        sv = [r for r in silent if r.get("tests") == "survived"]
        print(f"silent and surviving the test-suite: {len(sv)} of {len(silent)} silent")
    for r in allrec:
        r.pop("_src", None)
    json.dump(allrec, open(a.out, "w"), indent=0)
    print("written", a.out)


if __name__ == "__main__":
    main()
