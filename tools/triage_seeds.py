#!/venv/bin/python
"""Confirm and triage seeded changes produced by sub-agents in /tmp/seed/Cnn/seed_out/sK.

For every seed (in its own worktree, in parallel):
  1. demo.py on the clean worktree must exit 0
  2. apply patch; demo.py must exit != 0
  3. full test-suite with the patch: same pass set as the baseline stable list
  4. run every check (vcheck --all --repo <worktree>) and record which properties report a VIOLATION
  5. revert the worktree
Writes /tmp/seed/triage.json.
"""
import json, os, subprocess, sys, xml.etree.ElementTree as ET
from concurrent.futures import ThreadPoolExecutor
from pathlib import Path

BASE = json.load(open("/root/.vp/BASELINE.json"))["stable_pass"]
RUN_TESTS = "--no-tests" not in sys.argv
SEED_OUT = os.environ.get("SEED_OUT", "seed_out")
PREFIX = os.environ.get("SEED_PREFIX", "")
VCHECK = os.environ.get("VCHECK", "/verif/vcheck")  # another checkout of /verif can be triaged (generalisation baseline)
TRIAGE_JSON = os.environ.get("TRIAGE_JSON", "/tmp/seed/triage.json")


def sh(cmd, cwd=None, env=None, timeout=1500):
    e = dict(os.environ)
    e.update(env or {})
    p = subprocess.run(cmd, shell=True, cwd=cwd, env=e, capture_output=True, text=True, timeout=timeout)
    return p.returncode, p.stdout + p.stderr


def one(wt: Path):
    res = []
    pid = wt.name
    for sd in sorted((wt / SEED_OUT).glob("s*")):
        if not (sd / "patch.diff").exists() or not (sd / "demo.py").exists() or not (sd / "meta.json").exists():
            continue
        r = {"property": pid, "seed": PREFIX + sd.name, "dir": str(sd)}
        try:
            r["meta"] = json.load(open(sd / "meta.json"))
        except Exception as e:
            r["meta"] = {"error": str(e)}
        env = {"PYTHONPATH": str(wt)}
        sh("git checkout -- . ", cwd=wt)
        rc0, _ = sh(f"/venv/bin/python {sd}/demo.py", cwd=sd, env=env, timeout=600)
        r["demo_clean_rc"] = rc0
        rca, out = sh(f"git apply {sd}/patch.diff", cwd=wt)
        r["apply_rc"] = rca
        if rca != 0:
            r["apply_err"] = out[-300:]
            res.append(r)
            continue
        rc1, o1 = sh(f"/venv/bin/python {sd}/demo.py", cwd=sd, env=env, timeout=600)
        r["demo_patched_rc"] = rc1
        r["demo_patched_tail"] = o1.strip().splitlines()[-1:] if o1.strip() else []
        if RUN_TESTS:
            jx = f"/tmp/seed/junit_{pid}_{PREFIX}{sd.name}.xml"
            sh(f"/venv/bin/python -m pytest -q -p no:cacheprovider --timeout=900 --continue-on-collection-errors --junitxml={jx} tests", cwd=wt, env=env)
            ok = {}
            try:
                for tc in ET.parse(jx).iter("testcase"):
                    name = f"{tc.get('classname')}::{tc.get('name')}"
                    ok[name] = not any(ch.tag in ("failure", "error", "skipped") for ch in tc)
                r["tests_missing"] = [n for n in BASE if not ok.get(n)][:5]
            except Exception as e:
                r["tests_missing"] = [f"junit error {e}"]
            Path(jx).unlink(missing_ok=True)
        rcv, ov = sh(f"{VCHECK} --all --repo {wt}", cwd=str(Path(VCHECK).parent), env={"ODCVERIF_EVIDENCE_DIR": f"/tmp/seed/ev_{pid}_{PREFIX}{sd.name}"})
        flagged = {}
        cur = None
        for ln in ov.splitlines():
            if ln.startswith("VIOLATION property="):
                cur = ln.split("property=")[1].split()[0]
                flagged.setdefault(cur, [])
            elif ln.startswith("  rule=") and cur:
                flagged[cur].append(ln.strip()[:160])
        r["flagged"] = flagged
        r["analysis_errors"] = [ln[:200] for ln in ov.splitlines() if ln.startswith("ANALYSIS-ERROR")]
        sh(f"rm -rf /tmp/seed/ev_{pid}_{PREFIX}{sd.name}")
        sh("git checkout -- . ", cwd=wt)
        res.append(r)
    return res


def main():
    wts = [Path(f"/tmp/seed/{a}") for a in sys.argv[1:] if a.startswith("C")] or sorted(p for p in Path("/tmp/seed").glob("C??") if (p / SEED_OUT).is_dir())
    allres = []
    with ThreadPoolExecutor(8) as ex:
        for rs in ex.map(one, wts):
            allres.extend(rs)
    old = []
    tj = Path(TRIAGE_JSON)
    if tj.exists():
        prev = {(x["property"], x["seed"]): x for x in json.load(open(tj))}
        for r in allres:
            if "tests_missing" not in r and "tests_missing" in prev.get((r["property"], r["seed"]), {}):
                r["tests_missing"] = prev[(r["property"], r["seed"])]["tests_missing"]
        old = [r for r in json.load(open(tj)) if (r["property"], r["seed"]) not in {(x["property"], x["seed"]) for x in allres}]
    json.dump(old + allres, open(tj, "w"), indent=1)
    for r in allres:
        own = r["property"] in r.get("flagged", {})
        print(f"{r['property']}/{r['seed']} demo clean={r.get('demo_clean_rc')} patched={r.get('demo_patched_rc')} tests_missing={r.get('tests_missing')} "
              f"{'CAUGHT' if own else ('caught-by-other:' + ','.join(r.get('flagged', {})) if r.get('flagged') else 'MISSED')} errs={len(r.get('analysis_errors', []))} :: {r.get('meta', {}).get('summary', '')[:110]}")


if __name__ == "__main__":
    main()
