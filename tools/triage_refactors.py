#!/venv/bin/python
"""False-alarm triage: behaviour-preserving changes written by independent sub-agents
(/tmp/refac/Cnn/refac_out/rK/{patch.diff, meta.json}) are applied to a private copy of the package; the
stable tests must still pass and every check must stay silent (no VIOLATION, no ANALYSIS-ERROR).

usage: triage_refactors.py [--no-tests] [C01 C02 ...]      writes /tmp/refac/triage.json
"""
import json, os, shutil, subprocess, sys, tempfile, xml.etree.ElementTree as ET
from concurrent.futures import ThreadPoolExecutor
from pathlib import Path

BASE = json.load(open("/root/.vp/BASELINE.json"))["stable_pass"]
RUN_TESTS = "--no-tests" not in sys.argv
VCHECK = os.environ.get("VCHECK", "/verif/vcheck")
ROOT = Path(os.environ.get("REFAC_ROOT", "/tmp/refac"))
OUT = os.environ.get("REFAC_OUT", "refac_out")


def sh(cmd, cwd=None, env=None, timeout=2400):
    e = dict(os.environ)
    e.update(env or {})
    p = subprocess.run(cmd, shell=True, cwd=cwd, env=e, capture_output=True, text=True, timeout=timeout)
    return p.returncode, p.stdout + p.stderr


def one(rd: Path):
    pid = rd.parent.parent.name
    r = {"property": pid, "refactor": rd.name, "dir": str(rd)}
    try:
        r["meta"] = json.load(open(rd / "meta.json"))
    except Exception as e:  # noqa
        r["meta"] = {"error": str(e)}
    tmp = Path(tempfile.mkdtemp(prefix=f"refac_{pid}_{rd.name}_"))
    try:
        shutil.copytree("/repo/odc", tmp / "odc")
        shutil.copytree("/repo/tests", tmp / "tests")
        for f in ("pyproject.toml", "setup.cfg", "setup.py"):
            if Path("/repo", f).exists():
                shutil.copy(Path("/repo", f), tmp / f)
        rc, out = sh(f"patch -p1 -s --no-backup-if-mismatch < {rd}/patch.diff", cwd=tmp)
        r["apply_rc"] = rc
        if rc != 0:
            r["apply_err"] = out[-300:]
            return r
        if RUN_TESTS:
            jx = tmp / "j.xml"
            sh(f"/venv/bin/python -m pytest -q -p no:cacheprovider --timeout=900 --continue-on-collection-errors --junitxml={jx} tests", cwd=tmp, env={"PYTHONPATH": str(tmp)})
            ok = {}
            try:
                for tc in ET.parse(jx).iter("testcase"):
                    ok[f"{tc.get('classname')}::{tc.get('name')}"] = not any(ch.tag in ("failure", "error", "skipped") for ch in tc)
                r["tests_missing"] = [n for n in BASE if not ok.get(n)][:5]
            except Exception as e:  # noqa
                r["tests_missing"] = [f"junit error {e}"]
        ev = tempfile.mkdtemp(prefix="refac_ev_")
        rcv, ov = sh(f"{VCHECK} --all --repo {tmp}", cwd=str(Path(VCHECK).parent), env={"ODCVERIF_EVIDENCE_DIR": ev})
        shutil.rmtree(ev, ignore_errors=True)
        alarms, cur = {}, None
        for ln in ov.splitlines():
            if ln.startswith("VIOLATION property="):
                cur = ln.split("property=")[1].split()[0]
                alarms.setdefault(cur, [])
            elif ln.startswith("  rule=") and cur:
                alarms[cur].append(ln.strip()[:220])
        r["alarms"] = alarms
        r["analysis_errors"] = [ln[:260] for ln in ov.splitlines() if ln.startswith("ANALYSIS-ERROR")]
        return r
    finally:
        shutil.rmtree(tmp, ignore_errors=True)


def main():
    want = [a for a in sys.argv[1:] if a.startswith("C")]
    dirs = []
    for p in sorted(ROOT.glob("C??")):
        if want and p.name not in want:
            continue
        for rd in sorted((p / OUT).glob("r[0-9]*")):
            if (rd / "patch.diff").exists():
                dirs.append(rd)
    with ThreadPoolExecutor(6) as ex:
        res = list(ex.map(one, dirs))
    tj = ROOT / "triage.json"
    old = []
    if tj.exists():
        done = {(x["property"], x["refactor"]) for x in res}
        old = [x for x in json.load(open(tj)) if (x["property"], x["refactor"]) not in done]
    json.dump(old + res, open(tj, "w"), indent=1)
    for r in res:
        st = "SILENT" if not r.get("alarms") and not r.get("analysis_errors") else "ALARM"
        print(f"{r['property']}/{r['refactor']} apply={r.get('apply_rc')} tests_missing={r.get('tests_missing')} {st} "
              f"{json.dumps(r.get('alarms'))[:300] if r.get('alarms') else ''} {r.get('analysis_errors') or ''} :: {r.get('meta', {}).get('summary', '')[:100]}")


if __name__ == "__main__":
    main()
