#!/venv/bin/python
"""Run the repro scripts of the round-3 findings against /repo and print their exit codes next to the verdict
recorded in findings/INDEX.json (fixed -> must exit 0 now, known -> must still exit non-zero, dup/na -> informative).
This is bookkeeping for DESIGN.md section 5, not one of the registered checks (it executes odc-geo)."""
import json, os, subprocess, sys
from concurrent.futures import ThreadPoolExecutor
from pathlib import Path

ROOT = Path("/verif/findings")
idx = json.load(open(ROOT / "INDEX.json"))


def one(name):
    d = ROOT / name
    env = dict(os.environ, PYTHONPATH="/repo")
    try:
        p = subprocess.run(["/venv/bin/python", str(d / "repro.py")], cwd=d, env=env, capture_output=True, text=True, timeout=900)
        rc = p.returncode
    except subprocess.TimeoutExpired:
        rc = "timeout"
    return name, rc


names = sorted(n for n in idx if (ROOT / n / "repro.py").exists() and (not sys.argv[1:] or n in sys.argv[1:]))
bad = 0
with ThreadPoolExecutor(8) as ex:
    for name, rc in ex.map(one, names):
        v = idx[name]["verdict"]
        ok = v == "partial" or (v == "fixed" and rc == 0) or (v == "known" and rc not in (0, "timeout")) or v in ("duplicate", "not-a-violation")
        if v == "duplicate":
            ok = True
        print(f"{'ok ' if ok else 'BAD'} {name:22s} verdict={v:16s} exit={rc}  {idx[name].get('ref', '')}")
        bad += not ok
sys.exit(1 if bad else 0)
