#!/venv/bin/python
"""Copy confirmed seeds from /tmp/seed/<prop>/seed_out/<s> (+ /tmp/seed/triage.json) into /verif/seeded/<id>/ and
regenerate seeded/SUMMARY.md and the table inside DESIGN.md (between the SEEDED-TABLE markers)."""
import json, shutil, subprocess, re
from pathlib import Path

t = json.load(open('/tmp/seed/triage.json'))
head = subprocess.check_output(['git', '-C', '/repo', 'rev-parse', '--short', 'HEAD']).decode().strip()
out = Path('/verif/seeded'); out.mkdir(exist_ok=True)
rows = []
try:
    base2 = {(x['property'], x['seed']): x for x in json.load(open('/tmp/seed/triage_r2_baseline.json'))}
except Exception:
    base2 = {}
# round 3: detection by the checker as it stood when the seeds came in (log of the first triage pass, with tests)
base3 = {}
try:
    for ln in open('/tmp/seed/triage_r3.log'):
        if '/r3s' in ln:
            k = ln.split()[0]
            base3[(k.split('/')[0], k.split('/')[1])] = ' CAUGHT ' in ln
except Exception:
    pass
# seeds that stopped being valid breaking changes after the round-3 repairs of /repo
SUPERSEDED = {
    "C01-s2": "edits the `_epsg` fast path of CRS.__eq__, which repair F26 removed: the patch no longer applies (patch.diff is the original, against 8fa727c)",
    "C11-s1": "re-ordered footprint densification now calls segmented() with a zero step for a degenerate geobox, which the F31 guard rejects: stable test test_html_repr fails with the patch, so it no longer meets 'tests still pass'",
    "C12-s2": "its breakage (candidate range from a box projected by its corners) was repaired by F33 (GeoBox.project densifies): the demo passes with the patch; still reported because the edit computes the range before the is_empty test (F36)",
    "C12-r2s3": "it replaced the is_empty guard in grid_intersect; since F36 GeoboxTiles.tiles handles an empty query itself, the demo passes with the patch and the check is silent on it",
    "C13-r2s3": "its breakage (range_from_bbox counts a pixel only when the span reaches its centre) is compensated by the one-source-pixel slack grid_intersect adds since repair F78: the demo passes with the (rebased) patch; the C13 check still reports the edit (inward half-shift of a candidate range)",
    "C04-r2s3": "its off-by-one sits in the range test of Tiles.__getitem__ for tile ranges reaching past the grid; since repair F63 slice bounds past the end are clamped as numpy does before that test, so the edited comparison can no longer be false - the patch is a behaviour-preserving edit now and its demo (which expects IndexError for an over-long tile range) fails on the clean tree too",
    "C04-r3s2": "Tiles.crop early return through roi_is_full: after repair F30 (roi_is_full normalises) two stable tests fail with the patch, so it no longer meets 'tests still pass'",
}
verified_first_run = {"C02", "C04", "C06", "C07", "C14", "C15", "C16", "C18", "C19", "C20"}
for r in sorted(t, key=lambda x: (x['property'], x.get('round', 1), x['seed'])):
    sid = f"{r['property']}-{r['seed']}"
    src = Path(r.get('dir') or f"/tmp/seed/{r['property']}/seed_out/{r['seed']}")
    d = out / sid; d.mkdir(exist_ok=True)
    for f in ("patch.diff", "demo.py"):
        if (src / f).exists():
            shutil.copy(src / f, d / f)
    if (src / "patch.orig.diff").exists() and not (d / "patch_at_8fa727c.diff").exists():
        shutil.copy(src / "patch.orig.diff", d / "patch_at_8fa727c.diff")  # as delivered by the sub-agent, before it was rebased onto the repaired tree
    if r['property'] == "C13" and Path("/tmp/seed/C13/seed_out/harness.py").exists():
        shutil.copy("/tmp/seed/C13/seed_out/harness.py", d / "harness.py")
    chk = subprocess.run(['git', '-C', '/repo', 'apply', '--check', str(d / 'patch.diff')], capture_output=True)
    tm = r.get('tests_missing')
    if tm is None and r['property'] in verified_first_run and r['seed'] in ("s1", "s2", "s3"):
        tm = []  # full pytest run of the first triage pass (all stable tests passed); its json record was overwritten by a later --no-tests pass
    fl = r.get('flagged', {})
    meta = {
        "id": sid, "property": r['property'],
        "breaks": r['meta'].get('summary'), "needs_to_manifest": r['meta'].get('needs'), "files": r['meta'].get('files'),
        "author": "independent sub-agent given only the property record and a private worktree",
        "author_ran": r['meta'].get('ran'),
        "confirmed_by_me": {
            "demo_exit_clean_tree": r.get('demo_clean_rc'), "demo_exit_with_patch": r.get('demo_patched_rc'),
            "demo_last_line_with_patch": r.get('demo_patched_tail'),
            "stable_tests_not_passing_with_patch": tm,
            "how": "tools/triage_seeds.py: PYTHONPATH=<worktree> /venv/bin/python demo.py before/after `git apply patch.diff`; full pytest run with "
                   "--junitxml compared with BASELINE.json stable_pass; ./vcheck --all --repo <worktree>",
            "applies_to_repo_head": chk.returncode == 0, "repo_head": head,
        },
        "detected_by": fl,
        "detected_by_own_property_check": r['property'] in fl,
    }
    if sid in SUPERSEDED:
        meta["superseded"] = SUPERSEDED[sid]
    if (r['property'], r['seed']) in base3:
        meta["detected_before_strengthening"] = {"checker_commit": "f6a1f1e..ad7b9b5 (state when round-3 seeds arrived)", "own_property_check": base3[(r['property'], r['seed'])]}
    b = base2.get((r['property'], r['seed']))
    if b is not None:
        # the checker as committed before this round's seeds were looked at (git 636bf70): the generalisation baseline
        meta["detected_before_strengthening"] = {"checker_commit": "636bf70", "detected_by": sorted(b.get('flagged', {})), "own_property_check": r['property'] in b.get('flagged', {})}
    json.dump(meta, open(d / 'meta.json', 'w'), indent=1)
    rules = sorted({l.split('rule=')[1].split()[0] for ls in fl.values() for l in ls})
    rows.append((sid, r['property'] in fl, ",".join(sorted(fl)), ",".join(rules), (r['meta'].get('summary') or '')[:140].replace('|', '/').replace('\n', ' '),
                 (None if b is None else (r['property'] in b.get('flagged', {}))) if (r['property'], r['seed']) not in base3 else base3[(r['property'], r['seed'])],
                 sid in SUPERSEDED))
md = ["| seed | own check | before strengthening | reported by | rule(s) | change |", "|---|---|---|---|---|---|"]
for sid, own, props, rules, summ, before, sup in rows:
    md.append(f"| {sid}{' (superseded)' if sup else ''} | {'**yes**' if own else 'no'} | {'' if before is None else ('yes' if before else 'no')} | {props or '—'} | {rules or '—'} | {summ} |")
live = [r for r in rows if not r[6]]
caught = sum(1 for r in live if r[1])
r2 = [r for r in live if r[5] is not None and '-r2' in r[0]]
r3 = [r for r in live if '-r3' in r[0]]
summary = (f"**{caught} of {len(live)}** live seeded changes (plus {len(rows) - len(live)} superseded by repairs of /repo, marked in the table) are reported (exit 1, VIOLATION naming the construct) by the check of the property they were "
           f"written against; {sum(1 for r in live if r[2])} by some check; {len(live) - sum(1 for r in live if r[2])} by none.  "
           f"Of the {len(r2)} live round-2 seeds, {sum(1 for r in r2 if r[5])} were reported by the checker as it stood before that round, of the {len(r3)} live round-3 seeds {sum(1 for r in r3 if r[5])} (column 'before strengthening').\n\n" + "\n".join(md))
open(out / 'SUMMARY.md', 'w').write("# Seeded changes\n\n" + summary + "\n")
dp = Path('/verif/DESIGN.md'); s = dp.read_text()
if "SEEDED-TABLE-PLACEHOLDER" in s:
    s = s.replace("SEEDED-TABLE-PLACEHOLDER", "<!-- SEEDED-TABLE-BEGIN -->\n" + summary + "\n<!-- SEEDED-TABLE-END -->")
else:
    s = re.sub(r"<!-- SEEDED-TABLE-BEGIN -->.*<!-- SEEDED-TABLE-END -->", lambda m: "<!-- SEEDED-TABLE-BEGIN -->\n" + summary + "\n<!-- SEEDED-TABLE-END -->", s, flags=re.S)
dp.write_text(s)
print(caught, len(rows))
