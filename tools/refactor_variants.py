#!/venv/bin/python
"""Build behaviour-preserving variants of /repo/odc/geo in a scratch directory, to test that no
check raises an alarm on them.

  refactor_variants.py <outdir> unparse     every file re-emitted with ast.unparse (layout, comments,
                                            line numbers, parenthesisation all change)
  refactor_variants.py <outdir> rename      additionally every function-local variable that is not part
                                            of the x/y or interval naming lexicons gets a new name
  refactor_variants.py <outdir> extract     call arguments that read an attribute of a parameter / self are hoisted into a
                                            fresh local first (values reach their uses through locals)
  refactor_variants.py <outdir> shift       a docstring-sized comment block is inserted at the top of
                                            every function (moves every line number)
"""
import ast
import re
import shutil
import sys
from pathlib import Path

sys.path.insert(0, str(Path(__file__).resolve().parent.parent))
from odcverif.rules.axis import RX_X, RX_Y, WORD_X, WORD_Y, SIDE_X, SIDE_Y  # noqa: E402
from odcverif.rules.rounding import COUNT_NAMES, LOWER_NAMES, UPPER_NAMES  # noqa: E402

KEEP = re.compile(r"^(self|cls|_|__.*__)$")


def lexicon(name: str) -> bool:
    return bool(
        RX_X.match(name) or RX_Y.match(name) or name in WORD_X or name in WORD_Y or name in SIDE_X or name in SIDE_Y
        or LOWER_NAMES.match(name) or UPPER_NAMES.match(name) or COUNT_NAMES.match(name) or name in ("x", "y", "shape", "_shape")
    )


class Renamer(ast.NodeTransformer):
    def visit_FunctionDef(self, node):
        # rename only in leaf functions (no nested defs / lambdas / global / nonlocal)
        nested = [n for n in ast.walk(node) if n is not node and isinstance(n, (ast.FunctionDef, ast.AsyncFunctionDef, ast.Lambda, ast.ClassDef, ast.Global, ast.Nonlocal))]
        if nested:
            self.generic_visit(node)
            return node
        params = {a.arg for a in ast.walk(node.args) if isinstance(a, ast.arg)}
        assigned = set()
        for n in ast.walk(node):
            if isinstance(n, ast.Name) and isinstance(n.ctx, ast.Store):
                assigned.add(n.id)
        imported = {(a.asname or a.name).split(".")[0] for n in ast.walk(node) if isinstance(n, (ast.Import, ast.ImportFrom)) for a in n.names}
        locs = {n for n in assigned if n not in params and n not in imported and not KEEP.match(n) and not lexicon(n)}
        mapping = {n: f"{n}_rn" for n in locs}
        for n in ast.walk(node):
            if isinstance(n, ast.Name) and n.id in mapping:
                n.id = mapping[n.id]
        return node

    visit_AsyncFunctionDef = visit_FunctionDef


class Extractor(ast.NodeTransformer):
    """`f(a.b, ..)` -> `_ex1 = a.b; f(_ex1, ..)` for call arguments that are attribute reads of a parameter /
    self, in simple statements directly inside a function body or a block of it (behaviour preserving for
    side-effect free properties; the point is the *shape* change: a value reaches its use through a local)."""

    def __init__(self):
        self.n = 0

    def _hoist(self, st, params):
        if not isinstance(st, (ast.Assign, ast.Return, ast.Expr, ast.AugAssign, ast.AnnAssign)):
            return [st]
        # no hoisting out of lambdas / comprehensions / conditional expressions / boolean operators
        blocked = set()
        for x in ast.walk(st):
            if isinstance(x, (ast.Lambda, ast.ListComp, ast.SetComp, ast.DictComp, ast.GeneratorExp, ast.IfExp, ast.BoolOp)):
                for y in ast.walk(x):
                    blocked.add(id(y))
        pre = []
        for c in ast.walk(st):
            if isinstance(c, ast.Call) and id(c) not in blocked:
                for i, a in enumerate(c.args):
                    if isinstance(a, ast.Attribute) and isinstance(a.value, ast.Name) and a.value.id in params and id(a) not in blocked and isinstance(a.ctx, ast.Load):
                        self.n += 1
                        nm = f"_ex{self.n}"
                        pre.append(ast.Assign(targets=[ast.Name(id=nm, ctx=ast.Store())], value=a, lineno=st.lineno, col_offset=st.col_offset))
                        c.args[i] = ast.Name(id=nm, ctx=ast.Load())
                        break
            if len(pre) >= 1:
                break
        return pre + [st]

    def _block(self, body, params):
        out = []
        for st in body:
            for fld in ("body", "orelse", "finalbody"):
                if hasattr(st, fld) and isinstance(getattr(st, fld), list) and not isinstance(st, (ast.FunctionDef, ast.AsyncFunctionDef, ast.ClassDef)):
                    setattr(st, fld, self._block(getattr(st, fld), params))
            out.extend(self._hoist(st, params))
        return out

    def visit_FunctionDef(self, node):
        self.generic_visit(node)
        params = {a.arg for a in node.args.args + node.args.kwonlyargs}
        # parameters re-bound in the body are not safe bases
        rebound = {t.id for n in ast.walk(node) for t in ast.walk(n) if isinstance(t, ast.Name) and isinstance(t.ctx, ast.Store)}
        node.body = self._block(node.body, params - rebound)
        return node


def main():
    out = Path(sys.argv[1])
    mode = sys.argv[2]
    src = Path("/repo")
    if out.exists():
        shutil.rmtree(out)
    (out / "odc").mkdir(parents=True)
    shutil.copytree(src / "odc" / "geo", out / "odc" / "geo")
    n = 0
    for f in (out / "odc" / "geo").rglob("*.py"):
        text = f.read_text()
        tree = ast.parse(text)
        if mode == "shift":
            lines = text.split("\n")
            defs = sorted({d.body[0].lineno for d in ast.walk(tree) if isinstance(d, (ast.FunctionDef, ast.AsyncFunctionDef)) and d.body}, reverse=True)
            for ln in defs:
                indent = re.match(r"\s*", lines[ln - 1]).group(0)
                # only when the first body statement starts its own line
                if lines[ln - 1].strip() and not lines[ln - 1].lstrip().startswith(("def ", "@")) and ":" not in lines[ln - 2].split("#")[0][-1:] + "x" or True:
                    if re.match(r"^\s*(def|async def|@)", lines[ln - 1]) is None and lines[ln - 2].rstrip().endswith(":"):
                        lines[ln - 1 : ln - 1] = [f"{indent}# verification variant: shifted", f"{indent}# line numbers"]
            new = "\n".join(lines)
            try:
                ast.parse(new)
            except SyntaxError:
                new = text
            f.write_text(new)
        else:
            if mode == "rename":
                tree = Renamer().visit(tree)
                ast.fix_missing_locations(tree)
            if mode == "extract":
                tree = Extractor().visit(tree)
                ast.fix_missing_locations(tree)
            f.write_text(ast.unparse(tree) + "\n")
        n += 1
    print(f"{mode}: rewrote {n} files under {out}")


if __name__ == "__main__":
    main()
