#!/venv/bin/python
"""List every rule instance of one property check on a tree: tools/dump_ids.py <Cnn> [<repo-root>]
(diff two listings to see which instances an edit added or removed)."""
import os, sys
sys.path.insert(0, "/verif")
pid = sys.argv[1]
if len(sys.argv) > 2:
    os.environ["ODCVERIF_REPO"] = sys.argv[2]
from odcverif import props
from odcverif.loader import Program
from odcverif.report import Run

run = Run(pid, "quick", 0)
prog = Program(sys.argv[2]) if len(sys.argv) > 2 else Program()
getattr(props, pid)(prog, run, "quick")
for i in sorted(run.instances, key=lambda i: (i.rule, i.construct)):
    print(i.rule, i.construct, i.status)
