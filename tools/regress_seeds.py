#!/venv/bin/python
"""Regression of the checker against the stored seeded changes (both directions).

For every /verif/seeded/<id>/ the patch is applied to a private copy of /repo's package (under a
temporary directory, removed afterwards; /repo itself is never written), the check of the seed's own
property is run on the copy with --repo, and the verdict is compared with meta.json
(`detected_by_own_property_check`).  Reports
  REGRESSION  a seed that used to be reported is not reported any more
  NEW         a seed that used to be missed is reported now (meta.json is stale: re-run store_seeds)
  NOAPPLY     the patch no longer applies to /repo HEAD
Exit 1 on any REGRESSION.  Usage: tools/regress_seeds.py [-j N] [ids...]
"""
import json, os, shutil, subprocess, sys, tempfile
from concurrent.futures import ThreadPoolExecutor
from pathlib import Path

SEEDED = Path("/verif/seeded")


def one(d: Path):
    meta = json.load(open(d / "meta.json"))
    pid = meta["property"]
    tmp = Path(tempfile.mkdtemp(prefix="odcverif-regress-"))
    try:
        (tmp / "odc").mkdir()
        shutil.copytree("/repo/odc/geo", tmp / "odc" / "geo")
        p = subprocess.run(["patch", "-p1", "-s", "-f", "-i", str(d / "patch.diff")], cwd=tmp, capture_output=True, text=True)
        if p.returncode != 0:
            return d.name, "NOAPPLY", p.stdout[-200:]
        env = dict(os.environ, ODCVERIF_EVIDENCE_DIR=str(tmp / "ev"))
        r = subprocess.run(["/verif/vcheck", pid, "--repo", str(tmp)], capture_output=True, text=True, env=env, cwd="/verif")
        got = r.returncode == 1 and "VIOLATION property=" + pid in r.stdout
        want = bool(meta.get("detected_by_own_property_check"))
        if r.returncode == 2 and not got:
            return d.name, "ANALYSIS-ERROR", [l for l in r.stdout.splitlines() if l.startswith("ANALYSIS")][:2]
        if want and not got:
            return d.name, "REGRESSION", ""
        if got and not want:
            return d.name, "NEW", [l.strip()[:140] for l in r.stdout.splitlines() if l.startswith("  rule=")][:2]
        return d.name, "same(" + ("reported" if got else "missed") + ")", ""
    finally:
        shutil.rmtree(tmp, ignore_errors=True)


def main():
    args = sys.argv[1:]
    jobs = 12
    if "-j" in args:
        i = args.index("-j"); jobs = int(args[i + 1]); del args[i:i + 2]
    dirs = sorted(d for d in SEEDED.iterdir() if d.is_dir() and (d / "patch.diff").exists() and (not args or d.name in args))
    bad = 0
    counts = {}
    with ThreadPoolExecutor(jobs) as ex:
        for name, verdict, detail in ex.map(one, dirs):
            counts[verdict.split("(")[0] + ("" if "(" not in verdict else "(" + verdict.split("(")[1])] = counts.get(verdict, 0) + 1
            if not verdict.startswith("same"):
                print(f"{verdict:14s} {name} {detail}")
            if verdict in ("REGRESSION",):
                bad += 1
    print({k: v for k, v in sorted(counts.items())})
    return 1 if bad else 0


if __name__ == "__main__":
    sys.exit(main())
