#!/venv/bin/python
"""Regression of the checker against repaired defects: for every row the named file is taken from the /repo
commit *before* the repair (everything else from the working tree, in a private copy under a temporary
directory that is removed afterwards), the property's check is run with --repo on the copy and must report
the listed constructs. A `fixed:` entry suppresses nothing - this tool shows that the defect coming back is
reported. Bookkeeping, not a registered check (needs /repo's git history). Usage: tools/defect_regress.py [-j N]"""
import os, shutil, subprocess, sys, tempfile
from concurrent.futures import ThreadPoolExecutor
from pathlib import Path

ROWS = [
    # rev-before-fix, file, property, constructs that must be reported
    ("403daed", "odc/geo/crs.py", "C01", ["_make_crs#STRCANON at"]),
    ("403daed", "odc/geo/crs.py", "C07", ["STRCANON:parse-guarded"]),
    ("403daed", "odc/geo/crs.py", "C19", ["_make_crs#STRCANON at"]),
    ("9363d76", "odc/geo/gcp.py", "C01", ["explicit-crs", "_points_to_array#crs-guard"]),
    ("8789736", "odc/geo/geom.py", "C01", ["#keywords"]),
    ("ff67f85", "odc/geo/math.py", "C02", ["_fit9#rank-safe", "_fit4#rank-safe"]),
    ("ff67f85", "odc/geo/math.py", "C20", ["_fit9#rank-safe"]),
    ("212a38a", "odc/geo/geobox.py", "C02", ["GeoBox.pad#numnorm", "from_bbox#isnum:shape"]),
    ("f954815", "odc/geo/overlap.py", "C03", ["offset-fit", "overview-of-empty"]),
    ("0845d3c", "odc/geo/roi.py", "C17", ["clamp-past-end", "bounds-as-int", "roi_from_points#numnorm"]),
    ("d1fb6d8", "odc/geo/roi.py", "C04", ["range-check", "empty-axis"]),
    ("d1fb6d8", "odc/geo/roi.py", "C19", ["VariableSizedTiles#TOKENRAW"]),
    ("d1fb6d8", "odc/geo/gcp.py", "C19", ["GCPMapping#TOKENRAW"]),
    ("5c9be17", "odc/geo/cog/_tifffile.py", "C05", ["bounded-iterator", "native-dtype", "none-codec"]),
    ("78c44e3", "odc/geo/cog/_mpu.py", "C06", ["no-input-mutation", "part-range", "token-covers-stream"]),
    ("403daed", "odc/geo/geom.py", "C07", ["densify#numnorm:alias:d"]),
    ("9385c72", "odc/geo/math.py", "C09", ["is_affine_st#relative"]),
    ("6122e6e", "odc/geo/warp.py", "C10", ["native-dtype", "detour-clip"]),
    ("6122e6e", "odc/geo/warp.py", "C13", ["native-dtype"]),
    ("a883686", "odc/geo/overlap.py", "C11", ["same-crs-shortcut"]),
    ("11a4b4e", "odc/geo/geobox.py", "C12", ["nonlinear-all-tiles", "size-aware-stol", "source-pixel-slack"]),
    ("120cb46", "odc/geo/gridspec.py", "C14", ["exact-tile-size", "web_tiles#numnorm"]),
    ("6f863ad", "odc/geo/cog/_rio.py", "C15", ["yx-order", "nodata-as-stored"]),
    ("620d1c2", "odc/geo/geobox.py", "C16", ["spacing-aware-tol", "skip-empty"]),
    ("ca5a759", "odc/geo/cog/_mpu_fs.py", "C18", ["parts-dir-unique"]),
    ("0f196a3", "odc/geo/cog/_s3.py", "C18", ["#endpoint"]),
]


def one(row):
    rev, f, pid, want = row
    tmp = Path(tempfile.mkdtemp(prefix="odcverif-defect-"))
    try:
        (tmp / "odc").mkdir()
        shutil.copytree("/repo/odc/geo", tmp / "odc" / "geo")
        old = subprocess.run(["git", "-C", "/repo", "show", f"{rev}:{f}"], capture_output=True, text=True)
        if old.returncode != 0:
            return row, ["<cannot read %s at %s>" % (f, rev)]
        (tmp / f).write_text(old.stdout)
        env = dict(os.environ, ODCVERIF_EVIDENCE_DIR=str(tmp / "ev"))
        r = subprocess.run(["/verif/vcheck", pid, "--repo", str(tmp)], capture_output=True, text=True, env=env, cwd="/verif")
        lines = [l for l in r.stdout.splitlines() if l.strip().startswith("rule=")]
        return row, [w for w in want if not any(w in l for l in lines)]
    finally:
        shutil.rmtree(tmp, ignore_errors=True)


def main():
    jobs = 12
    if "-j" in sys.argv:
        jobs = int(sys.argv[sys.argv.index("-j") + 1])
    bad = 0
    with ThreadPoolExecutor(jobs) as ex:
        for (rev, f, pid, want), miss in ex.map(one, ROWS):
            print(f"{'MISS' if miss else 'ok  '} {pid} {f}@{rev} {miss if miss else want}")
            bad += bool(miss)
    sys.exit(1 if bad else 0)


if __name__ == "__main__":
    main()
