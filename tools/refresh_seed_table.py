#!/venv/bin/python
"""Re-run every check on every stored seed and regenerate seeded/SUMMARY.md and the table in DESIGN.md.

Works from /verif/seeded alone (the sub-agents' scratch directories are gone by then): for every
seeded/<id>/ the patch is applied with `git apply` semantics (`patch -p1` without fuzz) to a private copy of
/repo's package under a temporary directory, all 20 checks are run on the copy with --repo, and meta.json gets
`detected_by` (property -> reported rule/construct lines) and `detected_by_own_property_check`.  Fields
recorded when the seed was confirmed (`confirmed_by_me`, `detected_before_strengthening`, `superseded`) are
kept.  /repo is never written.  Usage: tools/refresh_seed_table.py [-j N] [ids...]
"""
import json, os, re, shutil, subprocess, sys, tempfile
from concurrent.futures import ThreadPoolExecutor
from pathlib import Path

SEEDED = Path("/verif/seeded")
PROPS = [f"C{i:02d}" for i in range(1, 21)]


def one(d: Path):
    tmp = Path(tempfile.mkdtemp(prefix="odcverif-seedtab-"))
    try:
        (tmp / "odc").mkdir()
        shutil.copytree("/repo/odc/geo", tmp / "odc" / "geo")
        p = subprocess.run(["patch", "-p1", "-s", "-f", "-F0", "-i", str(d / "patch.diff")], cwd=tmp, capture_output=True, text=True)
        if p.returncode != 0:
            return d.name, None
        env = dict(os.environ, ODCVERIF_EVIDENCE_DIR=str(tmp / "ev"))
        r = subprocess.run(["/verif/vcheck", "--all", "--repo", str(tmp)], capture_output=True, text=True, env=env, cwd="/verif")
        det = {}
        cur = None
        for ln in r.stdout.splitlines():
            m = re.match(r"VIOLATION property=(C\d\d) ", ln)
            if m:
                cur = m.group(1)
                continue
            if cur and ln.strip().startswith("rule="):
                det.setdefault(cur, []).append(ln.strip())
                cur = None
        return d.name, det
    finally:
        shutil.rmtree(tmp, ignore_errors=True)


def main():
    args = sys.argv[1:]
    jobs = 4
    if "-j" in args:
        i = args.index("-j"); jobs = int(args[i + 1]); del args[i:i + 2]
    dirs = sorted(d for d in SEEDED.iterdir() if d.is_dir() and (d / "patch.diff").exists() and (not args or d.name in args))
    with ThreadPoolExecutor(jobs) as ex:
        for name, det in ex.map(one, dirs):
            mp = SEEDED / name / "meta.json"
            meta = json.load(open(mp))
            if det is None:
                meta["applies_to_repo_head"] = False
                print(f"NOAPPLY {name}")
            else:
                meta["applies_to_repo_head"] = True
                meta["detected_by"] = det
                meta["detected_by_own_property_check"] = meta["property"] in det
                print(f"{name}: own={'yes' if meta['property'] in det else 'no '} by={','.join(sorted(det)) or '-'}", flush=True)
            json.dump(meta, open(mp, "w"), indent=1)
    # table
    rows = []
    for d in sorted(x for x in SEEDED.iterdir() if x.is_dir() and (x / "meta.json").exists()):
        m = json.load(open(d / "meta.json"))
        det = m.get("detected_by") or {}
        rules = sorted({l.split("rule=")[1].split()[0] for ls in det.values() for l in ls if "rule=" in l})
        before = m.get("detected_before_strengthening")
        b = None if before is None else bool(before.get("own_property_check"))
        summ = (m.get("breaks") or m.get("summary") or "")[:140].replace("|", "/").replace("\n", " ")
        rows.append((d.name, bool(m.get("detected_by_own_property_check")), ",".join(sorted(det)), ",".join(rules), summ, b, bool(m.get("superseded"))))
    md = ["| seed | own check | before strengthening | reported by | rule(s) | change |", "|---|---|---|---|---|---|"]
    for sid, own, props, rules, summ, before, sup in rows:
        md.append(f"| {sid}{' (superseded)' if sup else ''} | {'**yes**' if own else 'no'} | {'' if before is None else ('yes' if before else 'no')} | {props or '—'} | {rules or '—'} | {summ} |")
    live = [r for r in rows if not r[6]]
    caught = sum(1 for r in live if r[1])
    r2 = [r for r in live if r[5] is not None and "-r2" in r[0]]
    r3 = [r for r in live if "-r3" in r[0] and r[5] is not None]
    summary = (f"**{caught} of {len(live)}** live seeded changes (plus {len(rows) - len(live)} superseded by repairs of /repo, marked in the table) are reported (exit 1, VIOLATION naming the construct) by the check of the property they were "
               f"written against; {sum(1 for r in live if r[2])} by some check; {len(live) - sum(1 for r in live if r[2])} by none.  "
               f"Of the {len(r2)} live round-2 seeds, {sum(1 for r in r2 if r[5])} were reported by the checker as it stood before that round, of the {len(r3)} live round-3 seeds {sum(1 for r in r3 if r[5])} (column 'before strengthening').\n\n" + "\n".join(md))
    (SEEDED / "SUMMARY.md").write_text("# Seeded changes\n\n" + summary + "\n")
    dp = Path("/verif/DESIGN.md")
    s = dp.read_text()
    a, b = "<!-- SEEDED-TABLE-BEGIN -->", "<!-- SEEDED-TABLE-END -->"
    if a in s and b in s:
        s = s[:s.index(a) + len(a)] + "\n" + summary + "\n" + s[s.index(b):]
        dp.write_text(s)
    print(f"{caught} of {len(live)} live seeds reported by their own check")


if __name__ == "__main__":
    main()
